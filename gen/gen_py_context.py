"""Regenerate lean/SoupVerif/Generated/PyContext.lean from the *source text* (ast) of
`get_pattern_context(pattern, index)` in $SOUPVERIF_REPO/soupsieve/util.py.

Shape required of the function (checked; anything else raises `Unsupported`, so gen_all reports FAILED: fail closed)

    def get_pattern_context(<pattern>, <index>):          two plain positional parameters: a str and an int
        <v> = <const>  ...                                 the STATE: simple locals initialised with an int / str constant,
                                                           `[]` or `None` (a `None` local must also receive ints: `Option Int`)
        for <m> in <RE>.finditer(<pattern>):               <RE> a module-level `re.compile(...)` of util.py, no `else`
            <body>
        return (<expr>, ...)                               a tuple over the state

  * the FRAME is checked, not translated: the loop is the fixed fold `PyCtx.forSpans` (Model/PyCtx.lean) of the generated
    `step` over the `(m.start(0), m.end(0))` spans of `<RE>.finditer(<pattern>)`; the regex is emitted as
    `loopRegex := Gen.util_<RE>` (the term gen_regexes.py regenerates from the same file).  The loop variable may only occur
    as `<m>.start(0)`, `<m>.end(0)` and `len(<m>.group(0))` (= end - start); neither it nor a parameter may be assigned.
  * the six initialisations become `State` / `init`, the loop BODY becomes `step`, the `return` becomes `result`;
    `run spans pattern index` is the fixed composition.

Types: Python `int` -> `Int` (NOT `Nat`: `index - last + 1` and `col + offset` are computed as in Python, `' ' * n` is
`PyCtx.strMul`, which is `''` for `n <= 0`, and `pattern[a:b]` is `PyCtx.pySlice`, which implements negative bounds too; that
the values stay non-negative on the spans `finditer` produces is a THEOREM of Properties/C20Gen.lean); `str` -> `Str`
(code points); list of str -> `List Str`; an int-or-None local -> `Option Int`; tests -> decidable `Prop`s.
A local's type is the join of the types of everything assigned to it in the function (`int` with `None` gives `Option Int`).

Statements (loop body): `x = e`, `x += e` / `x -= e` (ints), `<list>.append(<str>)`, `if / elif / else`, `pass`.
    An `if` becomes `let r := if c then (<lets of the branch>; (v1, .., vn)) else ..` over the variables v1..vn some branch
    assigns (in the order of their first assignment in the function), followed by `let vi := r.<i>`.  A variable assigned on
    some paths only must already be defined.  `if <x> is [not] None:` on an `Option Int` local becomes a `match` that binds
    the int in the not-None branch (narrowing ends when the branch re-assigns `<x>`).  A local that is not part of the state
    must be assigned on every path before it is read in the SAME iteration (otherwise refused).
Expressions: names; int / str constants, `None`, `[]`; unary minus on an int constant; `+` `-` `*` on ints; `str + str`;
    `str * int`; f-strings made of str-typed `{name}` fields (no conversion / format spec) and literal text; `s[a:b]` on a
    str with int bounds; `len(<str | list>)`; `''.join(<list>)` (empty separator only); comparisons `<` `<=` `>` `>=` `==`
    `!=` between ints, chained ones as conjunctions; `not` / `and` / `or` over TESTS only (`and` / `or` between non-tests
    would return an operand: refused); `not <int>` -> `= 0`; truthiness of an int / str / list as an `if` test;
    `a if c else b`.
The output does not depend on comments, docstrings, annotations or blank lines (they never reach the `ast` walk); a renamed
local gives an alpha-equivalent file (the proofs address the fields by position).
"""
import ast
import os
import re as _re


class Unsupported(Exception):
    def __init__(self, msg, node=None):
        where = f' (line {node.lineno}: {ast.unparse(node)[:90]!r})' if node is not None and hasattr(node, 'lineno') else ''
        super().__init__(msg + where)


FUNC = 'get_pattern_context'
LEAN_KEYWORDS = {'end', 'from', 'at', 'do', 'then', 'fun', 'have', 'show', 'open', 'in', 'let', 'match', 'with', 'if', 'else',
                 'where', 'by', 'def', 'theorem', 'structure', 'namespace', 'section', 'import', 'instance', 'class',
                 'mutual', 'universe', 'variable', 'abbrev', 'example', 'axiom', 'macro', 'syntax', 'notation', 'deriving',
                 'extends', 'return', 'for', 'unless', 'try', 'catch', 'finally', 'using', 'calc', 'nomatch', 'nofun',
                 'private', 'protected', 'noncomputable', 'partial', 'unsafe', 'local', 'scoped', 'attribute', 'infix',
                 'prefix', 'postfix', 'infixl', 'infixr', 'inductive', 'opaque', 'set_option', 'suffices', 'obtain', 'Type',
                 'Prop', 'Sort', 'mut', 'break', 'continue', 'then', 'this', 'from', 'forall', 'exists'}
RESERVED = {'st', 'mStart', 'mStop', 'some', 'none', 'not', 'List', 'Str', 'Int', 'Nat', 'Option', 'PyCtx', 'SoupVerif', 'Gen',
            'State', 'init', 'step', 'result', 'run', 'loopRegex', 'True', 'False', 'true', 'false', 'len', 'Rx', 'id'}
LEAN_TYPE = {'int': 'Int', 'str': 'Str', 'strlist': 'List Str', 'optint': 'Option Int'}


def lean_str(s):
    if all(32 <= ord(c) < 127 and c not in '"\\' for c in s):
        return f'"{s}".toStr'
    return '([' + ', '.join(str(ord(c)) for c in s) + '] : Str)'


def indent(text, n):
    pad = ' ' * n
    return '\n'.join(pad + l if l else l for l in text.split('\n'))


def hang(text, n):
    """indent every line but the first"""
    first, _, rest = text.partition('\n')
    return first if not rest else first + '\n' + indent(rest, n)


def strip_doc(body):
    if body and isinstance(body[0], ast.Expr) and isinstance(body[0].value, ast.Constant) \
            and isinstance(body[0].value.value, str):
        return body[1:]
    return body


def is_name(e, name=None):
    return isinstance(e, ast.Name) and (name is None or e.id == name)


def single_assign(st):
    """`x = e` / `x: T = e` -> (target, value); the annotation is ignored."""
    if isinstance(st, ast.AnnAssign) and st.value is not None and st.simple:
        return st.target, st.value
    if isinstance(st, ast.Assign) and len(st.targets) == 1:
        return st.targets[0], st.value
    return None, None


def join_type(a, b, node=None):
    if a == b:
        return a
    if {a, b} <= {'int', 'none', 'optint'}:
        return 'optint'
    raise Unsupported(f'incompatible types {a} / {b} for one local or expression', node)


class Translator:
    def __init__(self, tree):
        fns = [n for n in tree.body if isinstance(n, ast.FunctionDef) and n.name == FUNC]
        if len(fns) != 1:
            raise Unsupported(f'{FUNC}: {len(fns)} definitions')
        fn = self.fn = fns[0]
        if fn.decorator_list:
            raise Unsupported('decorated', fn)
        a = fn.args
        if a.posonlyargs or a.kwonlyargs or a.vararg or a.kwarg or a.defaults or a.kw_defaults or len(a.args) != 2:
            raise Unsupported(f'{FUNC}(<pattern>, <index>): two plain positional parameters expected', fn)
        self.p_pattern, self.p_index = (x.arg for x in a.args)
        self.params = {self.p_pattern: 'str', self.p_index: 'int'}
        self.module_regexes = set()
        for st in tree.body:
            t, v = single_assign(st)
            if t is not None and is_name(t) and isinstance(v, ast.Call) and isinstance(v.func, ast.Attribute) \
                    and is_name(v.func.value, 're') and v.func.attr == 'compile':
                self.module_regexes.add(t.id)
        body = strip_doc(fn.body)
        loops = [i for i, s in enumerate(body) if isinstance(s, ast.For)]
        if len(loops) != 1 or loops[0] != len(body) - 2 or not isinstance(body[-1], ast.Return):
            raise Unsupported('body must be: initialisations, ONE for loop, return', fn)
        self.inits, self.loop, self.ret = body[:-2], body[-2], body[-1]
        self.check_frame()
        self.collect_assignments()
        self.counter = 0
        self.narrow = {}
        self.defined = set()

    # ---------------------------------------------------------------------------------------------- frame
    def check_frame(self):
        lp = self.loop
        if lp.orelse or getattr(lp, 'type_comment', None) and False:
            raise Unsupported('for ... else', lp)
        if not is_name(lp.target):
            raise Unsupported('loop variable must be a name', lp)
        self.m = lp.target.id
        it = lp.iter
        if not (isinstance(it, ast.Call) and not it.keywords and len(it.args) == 1 and is_name(it.args[0], self.p_pattern)
                and isinstance(it.func, ast.Attribute) and it.func.attr == 'finditer' and is_name(it.func.value)):
            raise Unsupported('loop must be `for m in <RE>.finditer(<pattern>)`', lp)
        self.regex = it.func.value.id
        if self.regex not in self.module_regexes:
            raise Unsupported(f'{self.regex} is not a module-level re.compile(...) of util.py', lp)
        if self.m in self.params:
            raise Unsupported('loop variable shadows a parameter', lp)
        # the loop variable only through .start(0) / .end(0) / len(.group(0))
        allowed = set()
        for node in ast.walk(self.fn):
            if isinstance(node, ast.Call) and self.match_call(node) in ('start', 'end'):
                allowed.add(id(node.func.value))
            if isinstance(node, ast.Call) and is_name(node.func, 'len') and len(node.args) == 1 and not node.keywords \
                    and isinstance(node.args[0], ast.Call) and self.match_call(node.args[0]) == 'group':
                allowed.add(id(node.args[0].func.value))
        for node in ast.walk(self.fn):
            if is_name(node, self.m) and node is not lp.target and id(node) not in allowed:
                raise Unsupported('the match object may only be used as m.start(0), m.end(0), len(m.group(0))', node)
        for node in ast.walk(lp):
            if isinstance(node, (ast.For, ast.While, ast.AsyncFor)) and node is not lp:
                raise Unsupported('nested loop', node)
        for node in ast.walk(self.ret):
            if is_name(node, self.m):
                raise Unsupported('the match object is read after the loop', node)

    def match_call(self, e):
        """`m.start(0)` -> 'start' (also 'end', 'group'), else None."""
        if isinstance(e, ast.Call) and isinstance(e.func, ast.Attribute) and is_name(e.func.value, self.m) \
                and e.func.attr in ('start', 'end', 'group') and not e.keywords and len(e.args) == 1 \
                and isinstance(e.args[0], ast.Constant) and type(e.args[0].value) is int and e.args[0].value == 0:
            return e.func.attr
        return None

    # ---------------------------------------------------------------------------------------------- names and types
    def collect_assignments(self):
        self.rhs = {}           # local -> list of assigned expressions ('int' for augmented assignments)
        self.order = []         # locals in the order of their first assignment
        self.state = []

        def note(name, value, node):
            if not _re.fullmatch(r'[A-Za-z_][A-Za-z0-9_]*', name) or name in RESERVED or _re.fullmatch(r'r\d+', name) \
                    or name.endswith('_some'):
                raise Unsupported(f'local name {name!r} is not usable', node)
            if name in self.params or name == self.m or name == self.regex:
                raise Unsupported(f'{name!r}: assignment to a parameter, the loop variable or the regex', node)
            if name not in self.rhs:
                self.rhs[name] = []
                self.order.append(name)
            self.rhs[name].append(value)

        def visit(stmts):
            for st in stmts:
                t, v = single_assign(st)
                if t is not None:
                    if not is_name(t):
                        raise Unsupported('assignment target must be a local name', st)
                    note(t.id, v, st)
                elif isinstance(st, ast.AugAssign):
                    if not is_name(st.target):
                        raise Unsupported('assignment target must be a local name', st)
                    note(st.target.id, 'int', st)
                elif isinstance(st, ast.If):
                    visit(st.body)
                    visit(st.orelse)

        for st in self.inits:
            t, v = single_assign(st)
            if t is None or not is_name(t):
                raise Unsupported('before the loop only `<local> = <constant>` is supported', st)
            if t.id in self.rhs:
                raise Unsupported('a state variable is initialised twice', st)
            if not (isinstance(v, ast.Constant) and (v.value is None or type(v.value) in (int, str))
                    or isinstance(v, ast.List) and not v.elts
                    or isinstance(v, ast.UnaryOp) and isinstance(v.op, ast.USub) and isinstance(v.operand, ast.Constant)
                    and type(v.operand.value) is int):
                raise Unsupported('initial value must be an int / str constant, [] or None', st)
            note(t.id, v, st)
            self.state.append(t.id)
        visit(self.loop.body)
        self.types = {}
        self.busy = set()
        for name in self.order:
            self.var_type(name)

    def var_type(self, name, node=None):
        if name in self.params:
            return self.params[name]
        if name in self.types:
            return self.types[name]
        if name not in self.rhs:
            raise Unsupported(f'unknown name {name!r}', node)
        if name in self.busy:
            raise Unsupported(f'cannot infer the type of {name!r} (cyclic)', node)
        self.busy.add(name)
        t = None
        for v in self.rhs[name]:
            tv = 'int' if v == 'int' else self.ty(v)
            t = tv if t is None else join_type(t, tv, v if v != 'int' else None)
        self.busy.discard(name)
        if t not in LEAN_TYPE:
            raise Unsupported(f'local {name!r} has unsupported type {t}', node)
        self.types[name] = t
        return t

    def ty(self, e):
        """Static type of an expression (operand checks are done when it is emitted)."""
        if isinstance(e, ast.Constant):
            if e.value is None:
                return 'none'
            if type(e.value) is int:
                return 'int'
            if type(e.value) is str:
                return 'str'
            raise Unsupported('constant', e)
        if isinstance(e, ast.List):
            if e.elts:
                raise Unsupported('only the empty list literal is supported', e)
            return 'strlist'
        if isinstance(e, ast.Name):
            return self.var_type(e.id, e)
        if isinstance(e, ast.UnaryOp) and isinstance(e.op, ast.USub):
            return 'int'
        if isinstance(e, ast.UnaryOp) and isinstance(e.op, ast.Not):
            return 'bool'
        if isinstance(e, (ast.Compare, ast.BoolOp)):
            return 'bool'
        if isinstance(e, ast.BinOp):
            if isinstance(e.op, (ast.Add, ast.Mult)) and 'str' in (self.ty(e.left), self.ty(e.right)):
                return 'str'
            return 'int'
        if isinstance(e, ast.IfExp):
            return join_type(self.ty(e.body), self.ty(e.orelse), e)
        if isinstance(e, ast.JoinedStr):
            return 'str'
        if isinstance(e, ast.Subscript):
            return 'str'
        if isinstance(e, ast.Call):
            if is_name(e.func, 'len') or self.match_call(e) in ('start', 'end'):
                return 'int'
            if isinstance(e.func, ast.Attribute) and e.func.attr == 'join':
                return 'str'
        raise Unsupported('expression', e)

    def lname(self, name):
        return f'«{name}»' if name in LEAN_KEYWORDS else name

    # ---------------------------------------------------------------------------------------------- expressions
    def coerce(self, text, t, want, node=None):
        if want is None or t == want:
            return text
        if want == 'optint' and t == 'int':
            return f'some ({text})'
        if want == 'optint' and t == 'none':
            return 'none'
        raise Unsupported(f'a value of type {t} where {want} is needed', node)

    def ex(self, e, want=None):
        text, t = self.ex0(e)
        return self.coerce(text, t, want, e)

    def ex_typed(self, e, want):
        text, t = self.ex0(e)
        if t != want:
            raise Unsupported(f'a value of type {t} where {want} is needed', e)
        return text

    def ex0(self, e):
        if isinstance(e, ast.Constant):
            if e.value is None:
                return 'none', 'none'
            if type(e.value) is int:
                return f'({e.value} : Int)', 'int'
            if type(e.value) is str:
                return lean_str(e.value), 'str'
            raise Unsupported('constant', e)
        if isinstance(e, ast.List):
            if e.elts:
                raise Unsupported('only the empty list literal is supported', e)
            return '([] : List Str)', 'strlist'
        if isinstance(e, ast.Name):
            if not isinstance(e.ctx, ast.Load):
                raise Unsupported('name context', e)
            if e.id in self.params:
                return self.lname(e.id), self.params[e.id]
            if e.id not in self.rhs:
                raise Unsupported(f'unknown name {e.id!r}', e)
            if e.id not in self.defined:
                raise Unsupported(f'{e.id!r} may be read before it is assigned in this iteration', e)
            if e.id in self.narrow:
                return self.narrow[e.id], 'int'
            return self.lname(e.id), self.types[e.id]
        if isinstance(e, ast.UnaryOp) and isinstance(e.op, ast.USub):
            if isinstance(e.operand, ast.Constant) and type(e.operand.value) is int:
                return f'(-{e.operand.value} : Int)', 'int'
            raise Unsupported('unary minus on a non-constant', e)
        if isinstance(e, ast.BinOp):
            lt, rt = self.ty(e.left), self.ty(e.right)
            if isinstance(e.op, ast.Add) and lt == rt == 'str':
                return f'({self.ex_typed(e.left, "str")} ++ {self.ex_typed(e.right, "str")})', 'str'
            if isinstance(e.op, ast.Mult) and (lt, rt) == ('str', 'int'):
                return f'(PyCtx.strMul {self.ex_typed(e.left, "str")} {self.ex_typed(e.right, "int")})', 'str'
            if isinstance(e.op, ast.Mult) and (lt, rt) == ('int', 'str'):
                return f'(PyCtx.strMul {self.ex_typed(e.right, "str")} {self.ex_typed(e.left, "int")})', 'str'
            ops = {ast.Add: '+', ast.Sub: '-', ast.Mult: '*'}
            if type(e.op) in ops:
                return f'({self.ex_typed(e.left, "int")} {ops[type(e.op)]} {self.ex_typed(e.right, "int")})', 'int'
            raise Unsupported('binary operator', e)
        if isinstance(e, ast.IfExp):
            t = join_type(self.ty(e.body), self.ty(e.orelse), e)
            if t not in LEAN_TYPE:
                raise Unsupported('conditional expression type', e)
            return f'(if {self.test(e.test)} then {self.ex(e.body, t)} else {self.ex(e.orelse, t)})', t
        if isinstance(e, ast.JoinedStr):
            parts = []
            for v in e.values:
                if isinstance(v, ast.Constant) and type(v.value) is str:
                    parts.append(lean_str(v.value))
                elif isinstance(v, ast.FormattedValue) and v.conversion == -1 and v.format_spec is None:
                    parts.append(self.ex_typed(v.value, 'str'))      # format(s, '') of a str is the str
                else:
                    raise Unsupported('f-string field', e)
            if not parts:
                return lean_str(''), 'str'
            return ('(' + ' ++ '.join(parts) + ')' if len(parts) > 1 else parts[0]), 'str'
        if isinstance(e, ast.Subscript):
            s = e.slice
            if not (isinstance(s, ast.Slice) and s.step is None and s.lower is not None and s.upper is not None):
                raise Unsupported('only s[a:b] is supported', e)
            return (f'(PyCtx.pySlice {self.ex_typed(e.value, "str")} {self.ex_typed(s.lower, "int")} '
                    f'{self.ex_typed(s.upper, "int")})'), 'str'
        if isinstance(e, ast.Call):
            kind = self.match_call(e)
            if kind == 'start':
                return '(mStart : Int)', 'int'
            if kind == 'end':
                return '(mStop : Int)', 'int'
            if is_name(e.func, 'len') and len(e.args) == 1 and not e.keywords:
                a = e.args[0]
                if self.match_call(a) == 'group':
                    return '((mStop - mStart : Nat) : Int)', 'int'     # len(m.group(0)) = m.end(0) - m.start(0)
                text, t = self.ex0(a)
                if t not in ('str', 'strlist'):
                    raise Unsupported('len() of a non-sequence', e)
                return f'({text}.length : Int)', 'int'
            if isinstance(e.func, ast.Attribute) and e.func.attr == 'join' and isinstance(e.func.value, ast.Constant) \
                    and e.func.value.value == '' and len(e.args) == 1 and not e.keywords:
                return f'({self.ex_typed(e.args[0], "strlist")}).flatten', 'str'
            raise Unsupported('call', e)
        if isinstance(e, (ast.Compare, ast.BoolOp)) or isinstance(e, ast.UnaryOp) and isinstance(e.op, ast.Not):
            return self.test(e), 'bool'
        raise Unsupported('expression', e)

    def test(self, e):
        """A Python expression in boolean position -> a decidable `Prop`."""
        if isinstance(e, ast.BoolOp):
            for v in e.values:
                if self.ty(v) != 'bool':
                    raise Unsupported('and / or between non-tests (would return an operand)', e)
            op = ' ∧ ' if isinstance(e.op, ast.And) else ' ∨ '
            return '(' + op.join(self.test(v) for v in e.values) + ')'
        if isinstance(e, ast.UnaryOp) and isinstance(e.op, ast.Not):
            t = self.ty(e.operand)
            if t == 'bool':
                return f'(¬ {self.test(e.operand)})'
            if t == 'int':
                return f'({self.ex_typed(e.operand, "int")} = 0)'
            if t in ('str', 'strlist'):
                return f'({self.ex_typed(e.operand, t)} = [])'
            raise Unsupported('not', e)
        if isinstance(e, ast.Compare):
            ops = {ast.Lt: '<', ast.LtE: '≤', ast.Gt: '>', ast.GtE: '≥', ast.Eq: '=', ast.NotEq: '≠'}
            operands = [e.left] + list(e.comparators)
            parts = []
            for op, l, r in zip(e.ops, operands, operands[1:]):
                if type(op) not in ops:
                    raise Unsupported('comparison operator', e)
                parts.append(f'{self.ex_typed(l, "int")} {ops[type(op)]} {self.ex_typed(r, "int")}')
            return '(' + ' ∧ '.join(parts) + ')'
        t = self.ty(e)
        if t == 'int':
            return f'({self.ex_typed(e, "int")} ≠ 0)'
        if t in ('str', 'strlist'):
            return f'({self.ex_typed(e, t)} ≠ [])'
        raise Unsupported('truth value of this expression', e)

    # ---------------------------------------------------------------------------------------------- statements
    def let(self, name, text):
        self.defined.add(name)
        self.narrow.pop(name, None)
        sep = '' if text.startswith('\n') else ' '
        return f'let {self.lname(name)} : {LEAN_TYPE[self.types[name]]} :={sep}{hang(text, 2)}'

    def assigned(self, stmts):
        out = set()
        for st in stmts:
            t, _v = single_assign(st)
            if t is not None:
                out.add(t.id)
            elif isinstance(st, ast.AugAssign):
                out.add(st.target.id)
            elif isinstance(st, ast.Expr) and isinstance(st.value, ast.Call) and isinstance(st.value.func, ast.Attribute) \
                    and st.value.func.attr == 'append' and is_name(st.value.func.value):
                out.add(st.value.func.value.id)
            elif isinstance(st, ast.If):
                out |= self.assigned(st.body) | self.assigned(st.orelse)
        return out

    def block(self, stmts):
        lines = []
        for st in stmts:
            t, v = single_assign(st)
            if t is not None:
                lines.append(self.let(t.id, self.ex(v, self.types[t.id])))
            elif isinstance(st, ast.AugAssign):
                if type(st.op) not in (ast.Add, ast.Sub) or self.types[st.target.id] != 'int':
                    raise Unsupported('augmented assignment', st)
                cur = self.ex_typed(ast.Name(id=st.target.id, ctx=ast.Load()), 'int')
                op = '+' if isinstance(st.op, ast.Add) else '-'
                lines.append(self.let(st.target.id, f'({cur} {op} {self.ex_typed(st.value, "int")})'))
            elif isinstance(st, ast.Expr) and isinstance(st.value, ast.Call) and isinstance(st.value.func, ast.Attribute) \
                    and st.value.func.attr == 'append':
                c = st.value
                if not (is_name(c.func.value) and len(c.args) == 1 and not c.keywords):
                    raise Unsupported('append', st)
                lst = self.ex_typed(c.func.value, 'strlist')
                lines.append(self.let(c.func.value.id, f'{lst} ++ [{self.ex_typed(c.args[0], "str")}]'))
            elif isinstance(st, ast.If):
                lines += self.if_stmt(st)
            elif isinstance(st, ast.Pass):
                pass
            elif isinstance(st, ast.Expr) and isinstance(st.value, ast.Constant) and type(st.value.value) is str:
                pass                                                  # a string used as a comment
            else:
                raise Unsupported('statement', st)
        return lines

    def tuple_of(self, names, node):
        for n in names:
            if n not in self.defined:
                raise Unsupported(f'{n!r} is assigned on some paths only and not defined before', node)
        vals = [self.lname(n) for n in names]
        return vals[0] if len(vals) == 1 else '(' + ', '.join(vals) + ')'

    def branch(self, stmts, names, node, narrow=None):
        saved = set(self.defined), dict(self.narrow)
        if narrow:
            self.narrow[narrow[0]] = narrow[1]
        lines = self.block(stmts)
        tup = self.tuple_of(names, node)
        self.defined, self.narrow = saved
        if not lines:
            return tup
        return '(' + hang('\n'.join(lines + [tup]), 1) + ')'

    def none_test(self, e):
        """`x is None` / `x is not None` on an Option Int local -> (x, positive?)"""
        if isinstance(e, ast.Compare) and len(e.ops) == 1 and isinstance(e.ops[0], (ast.Is, ast.IsNot)) \
                and isinstance(e.comparators[0], ast.Constant) and e.comparators[0].value is None:
            if not (is_name(e.left) and e.left.id in self.rhs and self.types[e.left.id] == 'optint'):
                raise Unsupported('`is None` on something that is not an int-or-None local', e)
            if e.left.id not in self.defined:
                raise Unsupported(f'{e.left.id!r} may be read before it is assigned in this iteration', e)
            return e.left.id, isinstance(e.ops[0], ast.IsNot)
        return None

    def if_expr(self, st, names):
        nt = self.none_test(st.test)
        if nt is not None:
            x, positive = nt
            bound = x + '_some'
            some_b, none_b = (st.body, st.orelse) if positive else (st.orelse, st.body)
            if x in self.narrow:                      # already known to be an int here
                return self.branch(some_b, names, st, (x, self.narrow[x]))
            s = self.branch(some_b, names, st, (x, bound))
            n = self.branch(none_b, names, st)
            return f'match {self.lname(x)} with\n| some {bound} =>\n{indent(s, 2)}\n| none =>\n{indent(n, 2)}'
        cond = self.test(st.test)
        then = self.branch(st.body, names, st)
        if len(st.orelse) == 1 and isinstance(st.orelse[0], ast.If):
            return f'if {cond} then\n{indent(then, 2)}\nelse {self.if_expr(st.orelse[0], names)}'
        return f'if {cond} then\n{indent(then, 2)}\nelse\n{indent(self.branch(st.orelse, names, st), 2)}'

    def if_stmt(self, st):
        assigned = self.assigned([st])
        names = [n for n in self.order if n in assigned]
        if not names:
            self.if_expr(st, [])          # still checks the tests and the branches
            return []
        text = self.if_expr(st, names)
        if len(names) == 1:
            return [self.let(names[0], '\n' + indent(text, 2))]
        self.counter += 1
        r = f'r{self.counter}'
        ty = ' × '.join(LEAN_TYPE[self.types[n]] for n in names)
        lines = [f'let {r} : {ty} :=\n{indent(text, 2)}']
        for i, n in enumerate(names):
            proj = '.2' * i + ('.1' if i < len(names) - 1 else '')
            lines.append(self.let(n, r + proj))
        return lines

    # ---------------------------------------------------------------------------------------------- output
    def emit(self):
        out = []
        fields = [(self.lname(n), LEAN_TYPE[self.types[n]], n) for n in self.state]
        out.append(f'/-- The locals of `{FUNC}` that are initialised before the loop, in that order. -/')
        out.append('structure State where')
        for ln, ty, n in fields:
            out.append(f'  {ln} : {ty}')
        out.append('  deriving Repr, DecidableEq\n')
        out.append('/-- The initialisations before the loop. -/')
        out.append('def init : State where')
        for st in self.inits:
            t, v = single_assign(st)
            out.append(f'  {self.lname(t.id)} := {self.ex(v, self.types[t.id])}')
        out.append('')
        out.append(f'/-- The regular expression whose `finditer` the loop runs over: `{self.regex}` of util.py as regenerated by '
                   'gen_regexes.py. -/')
        out.append(f'def loopRegex : Rx := Gen.util_{self.regex}\n')
        # step
        self.defined = set(self.state)
        self.narrow = {}
        lines = [f'let {ln} : {ty} := st.{ln}' for ln, ty, _n in fields]
        lines += self.block(self.loop.body)
        for n in self.state:
            if n not in self.defined:
                raise Unsupported(f'state variable {n!r} undefined at the end of the body')
        lines.append('{ ' + ', '.join(f'{ln} := {ln}' for ln, _ty, _n in fields) + ' }')
        pp, pi = self.lname(self.p_pattern), self.lname(self.p_index)
        out.append('/-- One iteration of the loop body for the match `m` with `m.start(0) = mStart`, `m.end(0) = mStop` '
                   '(`len(m.group(0))` is `mStop - mStart`). -/')
        out.append(f'def step ({pp} : Str) ({pi} : Int) (st : State) (mStart mStop : Nat) : State :=')
        out.append(indent('\n'.join(lines), 2))
        out.append('')
        # result
        self.defined = set(self.state)
        self.narrow = {}
        rv = self.ret.value
        if not (isinstance(rv, ast.Tuple) and rv.elts):
            raise Unsupported('the function must return a tuple', self.ret)
        comps = [self.ex0(x) for x in rv.elts]
        for (_t, ty), x in zip(comps, rv.elts):
            if ty not in LEAN_TYPE:
                raise Unsupported('returned component type', x)
        rty = ' × '.join(LEAN_TYPE[ty] for _t, ty in comps)
        lines = [f'let {ln} : {ty} := st.{ln}' for ln, ty, _n in fields]
        lines.append('(' + ', '.join(t for t, _ty in comps) + ')')
        out.append('/-- The `return` after the loop. -/')
        out.append(f'def result ({pp} : Str) ({pi} : Int) (st : State) : {rty} :=')
        out.append(indent('\n'.join(lines), 2))
        out.append('')
        out.append(f'/-- `{FUNC}({self.p_pattern}, {self.p_index})` when `{self.regex}.finditer({self.p_pattern})` yields the matches `spans` '
                   '(fixed frame: `PyCtx.forSpans` is `for m in ...: st = step st m`). -/')
        out.append(f'def run (spans : List (Nat × Nat)) ({pp} : Str) ({pi} : Int) : {rty} :=')
        out.append(f'  result {pp} {pi} (PyCtx.forSpans (step {pp} {pi}) spans init)')
        return '\n'.join(out) + '\n'


HEADER = '''/- GENERATED by gen/gen_py_context.py from the source text (ast) of soupsieve/util.py (`get_pattern_context`).
   Do not edit. -/
import SoupVerif.Model.PyCtx
import SoupVerif.Generated.Regexes
namespace SoupVerif.Gen.PyContext
open SoupVerif
set_option linter.unusedVariables false

'''


def main(dest, src_root=None):
    src_root = src_root or os.path.join(os.environ.get('SOUPVERIF_REPO', '/repo'), 'soupsieve')
    tree = ast.parse(open(os.path.join(src_root, 'util.py'), encoding='utf-8').read())
    tr = Translator(tree)
    text = HEADER + tr.emit() + '\nend SoupVerif.Gen.PyContext\n'
    with open(dest, 'w', encoding='utf-8') as f:
        f.write(text)
    return {'defs': text.count('\ndef '), 'state': len(tr.state), 'regex': tr.regex}


if __name__ == '__main__':
    import sys
    print(main(sys.argv[1] if len(sys.argv) > 1 else '/dev/stdout'))
