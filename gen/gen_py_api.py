"""Regenerate lean/SoupVerif/Generated/PyApi.lean from the *source text* (ast) of the query entry points in
$SOUPVERIF_REPO/soupsieve/css_match.py:

  CSSMatch.select / match / closest / filter          and          SoupSieve.select_one / select / iselect / filter

(the constructor arguments of every `CSSMatch(...)` inside the `SoupSieve` methods are already tabulated by
gen/gen_wrappers.py -> `Generated/Wrappers.lean`, `delegations`, and proved in Properties/C03Wrappers.lean).

What is emitted (namespace `SoupVerif.Gen.PyApi`), and the Python subset each part accepts -- anything else raises
`Unsupported`, gen_all reports FAILED and the pipeline treats the proof side as broken (fail closed):

CSSMatch.select(self, limit)          [a generator]
    <lim> = <option-int expr of limit>                       -> `selectInit limit : Option Int`
    for <x> in self.get_tag_descendants(self.tag):           -> frame CHECKED (exactly this iterable, no else, nothing after)
        <body>                                               -> `selectStep pmatch lim x : StepOut (Option Int) α`
  body statements:  if/elif/else;  `yield <x>` (the loop variable only);  `<lim> -= k` / `<lim> += k`;  `break`;
  the test `<lim> is not None` / `<lim> is None` becomes a `match` on the option and `lim` is an `Int` inside the
  `some` branch (arithmetic or comparison on `<lim>` outside such a branch is refused: Python would raise on None);
  other tests: `self.match(<x>)`, `<lim> <cmp> <int>`, `not`, `and`, `or`.
  option-int expr:  `A if <limit cmp int> else B` with A, B in { None, limit, int, limit +/- int }.
  `select limit descendants pmatch = forYield (selectStep pmatch) (selectInit limit) descendants`
  Ints are `Int` (Python ints are unbounded and `limit` may be negative); only `+`, `-` and comparisons occur.

CSSMatch.match(self, el)              `return <bool expr>` over `self.is_doc(el)`, `self.is_tag(el)`,
    `self.match_selectors(el, self.selectors)` with `not` / `and` / `or`   -> `matchEl is_doc is_tag match_selectors el`
    and the flat list `matchConjuncts` (polarity, callee, arguments as written) when the expression is a conjunction.

CSSMatch.closest(self)                <v> = None | self.tag | self.get_parent(self.tag)   (initial assignments)
    while <cond>: <body>              cond: `<v> is None`, `<v> is not None`, `not`, `and`, `or`
    return <v>                        body: if/else on `self.match(<v>)`;  `<v> = <w>` | `None` | `self.get_parent(<w>)`
    Locals are named v0, v1, ... in the order of their first assignment; calling `self.match` / `self.get_parent` on a
    local that is None has no verdict (`none`).   -> `closestInit`, `closestCond`, `closestBody`, `closestRet`, `closest`.

CSSMatch.filter(self)                 `return [<x> for <x> in self.get_contents(self.tag) if <cond>]`, cond over
    `isinstance(<x>, bs4.Tag)`, `self.match(<x>)`, `not`/`and`/`or`        -> `filter is_tag pmatch contents`

SoupSieve.select_one(self, tag)       `<t> = self.select(tag, limit=<int>)` ; `return <t>[<int>] if <t> else None`
                                      (also `if not <t>`)                  -> `selectOne select`
SoupSieve.select(self, tag, limit)    `return list(self.iselect(tag, limit))`                     -> `sieveSelect`
SoupSieve.iselect(self, tag, limit)   `yield from CSSMatch(<4 args>).select(limit)`               -> `sieveIselect`
SoupSieve.filter(self, iterable)      `if isinstance(iterable, bs4.Tag): return CSSMatch(<4 args>).filter()`
                                      `else: return [<n> for <n> in iterable if <cond>]`, cond over
                                      `CSSMatch.is_navigable_string(<n>)`, `self.match(<n>)`      -> `sieveFilter`

Names of locals and of loop variables are canonicalised by ROLE, comments / docstrings / annotations / blank lines
never reach the `ast`: harmless edits do not change the output.
"""
import ast
import os
import sys

REPO = os.environ.get('SOUPVERIF_REPO', '/repo')
SRC = os.path.join(REPO, 'soupsieve', 'css_match.py')


class Unsupported(Exception):
    pass


def fail(node, why):
    line = getattr(node, 'lineno', '?')
    try:
        text = ast.unparse(node)
    except Exception:
        text = repr(node)
    raise Unsupported(f'css_match.py:{line}: {why}: {text[:120]}')


def lean_s(text):
    return '"' + text.replace('\\', '\\\\').replace('"', '\\"') + '"'


def strip_doc(body):
    if body and isinstance(body[0], ast.Expr) and isinstance(body[0].value, ast.Constant) and isinstance(body[0].value.value, str):
        return body[1:]
    return body


class _DropAnn(ast.NodeTransformer):
    """`x: T = v` -> `x = v` (annotations carry no run-time meaning for a local)."""
    def visit_AnnAssign(self, node):
        if node.value is None or not isinstance(node.target, ast.Name) or not node.simple:
            fail(node, 'unsupported annotated statement')
        return ast.copy_location(ast.Assign(targets=[node.target], value=node.value), node)


def find_method(tree, cls, name):
    found = [c for c in tree.body if isinstance(c, ast.ClassDef) and c.name == cls]
    if len(found) != 1:
        raise Unsupported(f'class {cls}: found {len(found)} definitions')
    fns = [f for f in found[0].body if isinstance(f, (ast.FunctionDef, ast.AsyncFunctionDef)) and f.name == name]
    if len(fns) != 1 or not isinstance(fns[0], ast.FunctionDef):
        raise Unsupported(f'{cls}.{name}: found {len(fns)} definitions')
    fn = ast.fix_missing_locations(_DropAnn().visit(fns[0]))
    if fn.decorator_list:
        fail(fn, f'{cls}.{name} is decorated')
    return fn


def params(fn, n):
    a = fn.args
    if a.vararg or a.kwarg or a.kwonlyargs or a.posonlyargs:
        fail(fn, 'unsupported signature')
    names = [x.arg for x in a.args]
    if len(names) != n + 1 or names[0] != 'self':
        fail(fn, f'expected self + {n} parameters')
    return names[1:]


def defaults(fn):
    out = []
    for d in fn.args.defaults:
        if not (isinstance(d, ast.Constant) and type(d.value) is int):
            fail(d, 'default is not an int constant')
        out.append(d.value)
    return out


def is_self_attr(node, attr):
    return isinstance(node, ast.Attribute) and isinstance(node.value, ast.Name) and node.value.id == 'self' and node.attr == attr


def self_call(node, meth):
    """`self.<meth>(args)` without keywords -> list of args, else None."""
    if isinstance(node, ast.Call) and is_self_attr(node.func, meth) and not node.keywords:
        return node.args
    return None


def int_const(node):
    if isinstance(node, ast.Constant) and type(node.value) is int:
        return node.value
    if isinstance(node, ast.UnaryOp) and isinstance(node.op, ast.USub) and isinstance(node.operand, ast.Constant) and type(node.operand.value) is int:
        return -node.operand.value
    return None


def lean_int(k):
    return str(k) if k >= 0 else f'({k})'


CMP = {ast.Lt: '<', ast.LtE: '≤', ast.Gt: '>', ast.GtE: '≥', ast.Eq: '==', ast.NotEq: '!='}


def cmp_int(node, name_ok):
    """`<name> <cmp> <int>` -> (lean text of decide-able Bool) ; name_ok maps a Name node to its Lean name or None."""
    if not (isinstance(node, ast.Compare) and len(node.ops) == 1 and type(node.ops[0]) in CMP):
        return None
    left, right = node.left, node.comparators[0]
    k = int_const(right)
    if not isinstance(left, ast.Name) or k is None:
        return None
    ln = name_ok(left)
    if ln is None:
        return None
    op = CMP[type(node.ops[0])]
    if op in ('==', '!='):
        return f'({ln} {op} {lean_int(k)})'
    return f'(decide ({ln} {op} {lean_int(k)}))'


def bool_expr(node, atom):
    """not / and / or over atoms; `atom(node)` returns Lean text or None."""
    if isinstance(node, ast.UnaryOp) and isinstance(node.op, ast.Not):
        return f'(!{bool_expr(node.operand, atom)})'
    if isinstance(node, ast.BoolOp):
        op = '&&' if isinstance(node.op, ast.And) else '||'
        parts = [bool_expr(v, atom) for v in node.values]
        text = parts[-1]
        for p in reversed(parts[:-1]):
            text = f'({p} {op} {text})'
        return text
    t = atom(node)
    if t is None:
        fail(node, 'unsupported condition')
    return t


# ----------------------------------------------------------------------------------------------- CSSMatch.select

class SelectTr:
    def __init__(self, fn):
        self.fn = fn
        (self.limit,) = params(fn, 1)
        if defaults(fn) != [0]:
            fail(fn, 'select: default of limit is not 0')
        body = strip_doc(fn.body)
        if len(body) != 2:
            fail(fn, 'select: expected `<lim> = ...` and one `for` loop')
        init, loop = body
        if not (isinstance(init, ast.Assign) and len(init.targets) == 1 and isinstance(init.targets[0], ast.Name)):
            fail(init, 'select: expected `<lim> = <expr>`')
        self.lim = init.targets[0].id
        if self.lim == self.limit:
            fail(init, 'select: the counter rebinds the parameter')
        self.init = self.opt_int(init.value)
        if not isinstance(loop, ast.For) or loop.orelse or not isinstance(loop.target, ast.Name):
            fail(loop, 'select: expected a `for <x> in ...:` loop without else')
        self.x = loop.target.id
        if self.x in (self.lim, self.limit, 'self'):
            fail(loop, 'select: loop variable shadows a local')
        args = self_call(loop.iter, 'get_tag_descendants')
        if args is None or len(args) != 1 or not is_self_attr(args[0], 'tag'):
            fail(loop.iter, 'select: the loop must iterate self.get_tag_descendants(self.tag)')
        self.iter_text = ast.unparse(loop.iter)
        self.step = self.stmts(loop.body, None, 1)

    # option-int expression of the parameter
    def opt_int(self, node):
        if isinstance(node, ast.IfExp):
            c = cmp_int(node.test, lambda n: 'limit' if n.id == self.limit else None)
            if c is None:
                fail(node.test, 'select: unsupported test in the initial value')
            return f'if {c} then {self.opt_int(node.body)} else {self.opt_int(node.orelse)}'
        if isinstance(node, ast.Constant) and node.value is None:
            return 'none'
        return f'some {self.int_expr(node)}'

    def int_expr(self, node):
        k = int_const(node)
        if k is not None:
            return lean_int(k)
        if isinstance(node, ast.Name) and node.id == self.limit:
            return 'limit'
        if isinstance(node, ast.BinOp) and isinstance(node.op, (ast.Add, ast.Sub)) and isinstance(node.left, ast.Name) \
                and node.left.id == self.limit and int_const(node.right) is not None:
            return f'(limit {"+" if isinstance(node.op, ast.Add) else "-"} {lean_int(int_const(node.right))})'
        fail(node, 'select: unsupported integer expression')

    def none_test(self, node):
        """`<lim> is not None` -> True, `<lim> is None` -> False, else None."""
        if isinstance(node, ast.Compare) and len(node.ops) == 1 and isinstance(node.left, ast.Name) and node.left.id == self.lim \
                and isinstance(node.comparators[0], ast.Constant) and node.comparators[0].value is None:
            if isinstance(node.ops[0], ast.IsNot):
                return True
            if isinstance(node.ops[0], ast.Is):
                return False
        return None

    def cond(self, node, refined):
        def atom(n):
            a = self_call(n, 'match')
            if a is not None:
                if len(a) == 1 and isinstance(a[0], ast.Name) and a[0].id == self.x:
                    return 'pmatch x'
                fail(n, 'select: self.match must be applied to the loop variable')

            def nm(name):
                if name.id == self.lim:
                    if not refined:
                        fail(n, 'select: comparison on the counter where it may be None')
                    return 'lim'
                return None
            return cmp_int(n, nm)
        return bool_expr(node, atom)

    def out(self, refined, brk):
        st = {None: 'lim', True: 'some lim', False: 'none'}[refined]
        return f'⟨ys, {st}, {"true" if brk else "false"}⟩'

    def stmts(self, body, refined, ind):
        """refined: None = `lim : Option Int` unknown, True = inside `some` (lim : Int), False = inside `none`."""
        pad = '  ' * ind
        if not body:
            return pad + self.out(refined, False)
        s, rest = body[0], body[1:]
        if isinstance(s, ast.Break):
            return pad + self.out(refined, True)
        if isinstance(s, ast.Expr) and isinstance(s.value, ast.Yield):
            v = s.value.value
            if not (isinstance(v, ast.Name) and v.id == self.x):
                fail(s, 'select: only the loop variable may be yielded')
            return pad + 'let ys := ys ++ [x]\n' + self.stmts(rest, refined, ind)
        if isinstance(s, ast.AugAssign) and isinstance(s.target, ast.Name) and s.target.id == self.lim \
                and isinstance(s.op, (ast.Add, ast.Sub)) and int_const(s.value) is not None:
            if refined is not True:
                fail(s, 'select: arithmetic on the counter where it may be None')
            op = '+' if isinstance(s.op, ast.Add) else '-'
            return pad + f'let lim := lim {op} {lean_int(int_const(s.value))}\n' + self.stmts(rest, refined, ind)
        if isinstance(s, ast.If):
            nt = self.none_test(s.test)
            if nt is not None:
                if refined is not None:
                    fail(s, 'select: nested None test on the counter')
                some_b, none_b = (s.body, s.orelse) if nt else (s.orelse, s.body)
                return (pad + 'match lim with\n' + pad + '| some lim =>\n' + self.stmts(list(some_b) + rest, True, ind + 1) + '\n'
                        + pad + '| none =>\n' + self.stmts(list(none_b) + rest, False, ind + 1))
            c = self.cond(s.test, refined is True)
            return (pad + f'if {c} then\n' + self.stmts(list(s.body) + rest, refined, ind + 1) + '\n'
                    + pad + 'else\n' + self.stmts(list(s.orelse) + rest, refined, ind + 1))
        fail(s, 'select: unsupported statement in the loop body')

    def emit(self):
        L = []
        L.append('/-- The iterable of the `for` loop of `CSSMatch.select`, as written (checked by the translator). -/')
        L.append(f'def selectIter : String := {lean_s(self.iter_text)}')
        L.append('')
        L.append('/-- `lim = ...`: the counter before the loop (`none` = Python `None`). -/')
        L.append(f'def selectInit (limit : Int) : Option Int :=\n  {self.init}')
        L.append('')
        L.append('/-- One run of the loop body: `ys` collects the yields in order, `lim` is the counter, the flag says `break`. -/')
        L.append('def selectStep {α : Type} (pmatch : α → Bool) (lim : Option Int) (x : α) : StepOut (Option Int) α :=\n'
                 '  let ys : List α := []\n' + self.step)
        L.append('')
        L.append('/-- `CSSMatch.select(limit)` as the list of the generator\'s values; `descendants` = the values of\n'
                 '    `self.get_tag_descendants(self.tag)`, `pmatch` = `self.match`. -/')
        L.append('def select {α : Type} (limit : Int) (descendants : List α) (pmatch : α → Bool) : List α :=\n'
                 '  forYield (selectStep pmatch) (selectInit limit) descendants')
        return '\n'.join(L)


def walk_has(fn, kinds):
    return any(isinstance(n, kinds) for n in ast.walk(fn))


# ------------------------------------------------------------------------------------------------ CSSMatch.match

MATCH_ATOMS = {'is_doc': 1, 'is_tag': 1, 'match_selectors': 2}


def translate_match(fn):
    (el,) = params(fn, 1)
    body = strip_doc(fn.body)
    if len(body) != 1 or not isinstance(body[0], ast.Return) or body[0].value is None:
        fail(fn, 'match: expected a single `return <expr>`')
    conj = []

    def atom(n, record=None):
        if not (isinstance(n, ast.Call) and isinstance(n.func, ast.Attribute) and isinstance(n.func.value, ast.Name)
                and n.func.value.id == 'self' and n.func.attr in MATCH_ATOMS and not n.keywords):
            return None
        name = n.func.attr
        if len(n.args) != MATCH_ATOMS[name] or not (isinstance(n.args[0], ast.Name) and n.args[0].id == el):
            fail(n, 'match: unexpected arguments')
        if name == 'match_selectors' and not is_self_attr(n.args[1], 'selectors'):
            fail(n, 'match: match_selectors must receive self.selectors')
        return f'{name} el'
    expr = body[0].value
    text = bool_expr(expr, atom)
    # flat conjunct list (documentation of the guard order; empty when the expression is not a conjunction of literals)
    vals = expr.values if isinstance(expr, ast.BoolOp) and isinstance(expr.op, ast.And) else [expr]
    flat = []
    for v in vals:
        pol = True
        while isinstance(v, ast.UnaryOp) and isinstance(v.op, ast.Not):
            pol, v = not pol, v.operand
        if atom(v) is None:
            flat = None
            break
        args = ['el' if (isinstance(a, ast.Name) and a.id == el) else ast.unparse(a) for a in v.args]
        flat.append(f'({"true" if pol else "false"}, {lean_s("self." + v.func.attr)}, [{", ".join(lean_s(a) for a in args)}])')
    L = []
    L.append('/-- `CSSMatch.match(el)`; the three callees are parameters. -/')
    L.append('def matchEl {α : Type} (is_doc is_tag match_selectors : α → Bool) (el : α) : Bool :=\n  ' + text)
    L.append('')
    L.append('/-- The conjuncts in source order: (polarity, callee, arguments as written); `[]` if the expression is not a\n'
             '    conjunction of (negated) calls. -/')
    L.append('def matchConjuncts : List (Bool × String × List String) :=\n  [' + ', '.join(flat or []) + ']')
    return '\n'.join(L)


# ---------------------------------------------------------------------------------------------- CSSMatch.closest

class ClosestTr:
    def __init__(self, fn):
        params(fn, 0)
        body = strip_doc(fn.body)
        self.vars = {}
        i = 0
        inits = []
        while i < len(body) and isinstance(body[i], ast.Assign):
            inits.append(body[i])
            i += 1
        if len(body) != i + 2 or not isinstance(body[i], ast.While) or body[i].orelse or not isinstance(body[i + 1], ast.Return):
            fail(fn, 'closest: expected assignments, one `while` (no else), `return <local>`')
        loop, ret = body[i], body[i + 1]
        self.init_lines = []
        for s in inits:
            if len(s.targets) != 1 or not isinstance(s.targets[0], ast.Name):
                fail(s, 'closest: unsupported assignment target')
            rhs = self.rhs(s.value, '    ', top=True)
            name = s.targets[0].id
            if name not in self.vars:
                self.vars[name] = f'v{len(self.vars)}'
            self.init_lines.append(f'  let {self.vars[name]} : Option α := {rhs}')
        if not self.vars:
            fail(fn, 'closest: no locals')
        self.cond = bool_expr(loop.test, self.cond_atom)
        self.body = self.stmts(loop.body, 1)
        if not (isinstance(ret.value, ast.Name) and ret.value.id in self.vars):
            fail(ret, 'closest: must return a local')
        self.ret = self.vars[ret.value.id]

    def var(self, node):
        if isinstance(node, ast.Name) and node.id in self.vars:
            return self.vars[node.id]
        fail(node, 'closest: unknown name')

    def rhs(self, node, pad, top=False):
        """Option α expression. In the loop body (`do` block) a call on a local unwraps it with `(← v)`."""
        if isinstance(node, ast.Constant) and node.value is None:
            return 'none'
        if is_self_attr(node, 'tag'):
            return 'some tag'
        if isinstance(node, ast.Name):
            return self.var(node)
        a = self_call(node, 'get_parent')
        if a is not None and len(a) == 1:
            if is_self_attr(a[0], 'tag'):
                return 'parent tag'
            if not top:
                return f'parent (← {self.var(a[0])})'
        fail(node, 'closest: unsupported right-hand side')

    def cond_atom(self, n):
        if isinstance(n, ast.Compare) and len(n.ops) == 1 and isinstance(n.comparators[0], ast.Constant) \
                and n.comparators[0].value is None and isinstance(n.left, ast.Name):
            v = self.var(n.left)
            if isinstance(n.ops[0], ast.Is):
                return f's.{v}.isNone'
            if isinstance(n.ops[0], ast.IsNot):
                return f's.{v}.isSome'
        return None

    def body_atom(self, n):
        a = self_call(n, 'match')
        if a is not None and len(a) == 1:
            return f'pmatch (← {self.var(a[0])})'
        return None

    def pure(self, pad):
        return pad + 'pure { ' + ', '.join(f'{v} := {v}' for v in self.vars.values()) + ' }'

    def stmts(self, body, ind):
        pad = '  ' * ind
        if not body:
            return self.pure(pad)
        s, rest = body[0], body[1:]
        if isinstance(s, ast.Assign) and len(s.targets) == 1 and isinstance(s.targets[0], ast.Name):
            if s.targets[0].id not in self.vars:
                fail(s, 'closest: assignment to a local not initialised before the loop')
            rhs = self.rhs(s.value, pad)
            return pad + f'let {self.vars[s.targets[0].id]} : Option α := {rhs}\n' + self.stmts(rest, ind)
        if isinstance(s, ast.If):
            c = bool_expr(s.test, self.body_atom)
            return (pad + f'if {c} then\n' + self.stmts(list(s.body) + rest, ind + 1) + '\n'
                    + pad + 'else\n' + self.stmts(list(s.orelse) + rest, ind + 1))
        fail(s, 'closest: unsupported statement in the loop body')

    def emit(self):
        vs = list(self.vars.values())
        L = []
        L.append('/-- The locals of `CSSMatch.closest`, named in the order of their first assignment (`none` = Python `None`). -/')
        L.append('structure ClosestState (α : Type) where\n' + '\n'.join(f'  {v} : Option α' for v in vs))
        L.append('')
        L.append('/-- The assignments before the loop. -/')
        L.append('def closestInit {α : Type} (parent : α → Option α) (tag : α) : ClosestState α :=\n'
                 '  let _ := parent\n' + '\n'.join(self.init_lines) + '\n  { ' + ', '.join(f'{v} := {v}' for v in vs) + ' }')
        L.append('')
        L.append('/-- The `while` test. -/')
        L.append(f'def closestCond {{α : Type}} (s : ClosestState α) : Bool :=\n  {self.cond}')
        L.append('')
        L.append('/-- One run of the loop body; `none` = `self.match` / `self.get_parent` applied to a local that is `None`. -/')
        L.append('def closestBody {α : Type} (parent : α → Option α) (pmatch : α → Bool) (s : ClosestState α) : Option (ClosestState α) := do\n'
                 + '\n'.join(f'  let {v} : Option α := s.{v}' for v in vs) + '\n' + self.body)
        L.append('')
        L.append('/-- `return <local>`. -/')
        L.append(f'def closestRet {{α : Type}} (s : ClosestState α) : Option α := s.{self.ret}')
        L.append('')
        L.append('/-- `CSSMatch.closest()`; `parent` = `self.get_parent`, `pmatch` = `self.match`, `tag` = `self.tag`. -/')
        L.append('def closest {α : Type} (parent : α → Option α) (pmatch : α → Bool) (tag : α) (fuel : Nat) : Option (Option α) :=\n'
                 '  (whileOpt closestCond (closestBody parent pmatch) fuel (closestInit parent tag)).map closestRet')
        return '\n'.join(L)


# ----------------------------------------------------------------------------------------------- comprehensions

def comprehension(node, what, iter_ok, atom_of):
    """`[<x> for <x> in <iter> if <cond>...]` -> Lean lambda body over `x`."""
    if not (isinstance(node, ast.ListComp) and len(node.generators) == 1):
        fail(node, f'{what}: expected a list comprehension with one generator')
    g = node.generators[0]
    if g.is_async or not isinstance(g.target, ast.Name):
        fail(node, f'{what}: unsupported generator')
    x = g.target.id
    if not (isinstance(node.elt, ast.Name) and node.elt.id == x):
        fail(node, f'{what}: the comprehension must collect its own variable')
    if not iter_ok(g.iter):
        fail(g.iter, f'{what}: unexpected iterable')
    conds = [bool_expr(c, lambda n: atom_of(n, x)) for c in g.ifs]
    if not conds:
        return 'true'
    text = conds[-1]
    for c in reversed(conds[:-1]):
        text = f'({c} && {text})'
    return text


def is_bs4_tag(node):
    return isinstance(node, ast.Attribute) and node.attr == 'Tag' and isinstance(node.value, ast.Name) and node.value.id == 'bs4'


def isinstance_tag(n, name):
    return (isinstance(n, ast.Call) and isinstance(n.func, ast.Name) and n.func.id == 'isinstance' and not n.keywords
            and len(n.args) == 2 and isinstance(n.args[0], ast.Name) and n.args[0].id == name and is_bs4_tag(n.args[1]))


def translate_filter(fn):
    params(fn, 0)
    body = strip_doc(fn.body)
    if len(body) != 1 or not isinstance(body[0], ast.Return) or body[0].value is None:
        fail(fn, 'filter: expected a single `return [...]`')

    def iter_ok(it):
        a = self_call(it, 'get_contents')
        return a is not None and len(a) == 1 and is_self_attr(a[0], 'tag')

    def atom(n, x):
        if isinstance_tag(n, x):
            return 'is_tag x'
        a = self_call(n, 'match')
        if a is not None and len(a) == 1 and isinstance(a[0], ast.Name) and a[0].id == x:
            return 'pmatch x'
        return None
    text = comprehension(body[0].value, 'filter', iter_ok, atom)
    return ('/-- `CSSMatch.filter()`; `contents` = the values of `self.get_contents(self.tag)`, `is_tag x` = `isinstance(x, bs4.Tag)`. -/\n'
            'def filter {α : Type} (is_tag pmatch : α → Bool) (contents : List α) : List α :=\n'
            f'  contents.filter (fun x => {text})')


# ------------------------------------------------------------------------------------------------- SoupSieve.*

CTOR = ['self.selectors', None, 'self.namespaces', 'self.flags']


def ctor_call(node, target, meth):
    """`CSSMatch(self.selectors, <target>, self.namespaces, self.flags).<meth>(args)` -> args (ctor args are tabulated
    and proved in Generated/Wrappers.lean / C03Wrappers; here only the receiver shape is required)."""
    if not (isinstance(node, ast.Call) and isinstance(node.func, ast.Attribute) and node.func.attr == meth and not node.keywords):
        return None
    c = node.func.value
    if not (isinstance(c, ast.Call) and isinstance(c.func, ast.Name) and c.func.id == 'CSSMatch' and not c.keywords and len(c.args) == 4):
        return None
    if not (isinstance(c.args[1], ast.Name) and c.args[1].id == target):
        fail(node, 'the matcher must be built on the call target')
    return node.args


def translate_select_one(fn):
    (tag,) = params(fn, 1)
    body = strip_doc(fn.body)
    if len(body) != 2 or not isinstance(body[0], ast.Assign) or not isinstance(body[1], ast.Return):
        fail(fn, 'select_one: expected `<t> = self.select(...)` and `return ...`')
    a, r = body
    if len(a.targets) != 1 or not isinstance(a.targets[0], ast.Name):
        fail(a, 'select_one: unsupported target')
    t = a.targets[0].id
    c = a.value
    if not (isinstance(c, ast.Call) and is_self_attr(c.func, 'select')):
        fail(a, 'select_one: expected self.select(...)')
    pos = list(c.args)
    kws = {k.arg: k.value for k in c.keywords}
    if None in kws:
        fail(a, 'select_one: **kwargs')
    names = ['tag', 'limit']
    got = {}
    for n, v in zip(names, pos):
        got[n] = v
    if len(pos) > 2 or set(kws) - set(names) or set(kws) & set(got):
        fail(a, 'select_one: unsupported arguments')
    got.update(kws)
    if 'tag' not in got or not (isinstance(got['tag'], ast.Name) and got['tag'].id == tag):
        fail(a, 'select_one: must select under its own argument')
    k = int_const(got['limit']) if 'limit' in got else 0
    if k is None:
        fail(a, 'select_one: limit is not an int constant')

    def val(n):
        if isinstance(n, ast.Constant) and n.value is None:
            return 'some none'
        if isinstance(n, ast.Subscript) and isinstance(n.value, ast.Name) and n.value.id == t and int_const(n.slice) is not None:
            return f'(getItem tags {lean_int(int_const(n.slice))}).map some'
        fail(n, 'select_one: unsupported result expression')
    e = r.value
    if not isinstance(e, ast.IfExp):
        fail(r, 'select_one: expected `A if <t> else B`')
    tst = e.test
    neg = False
    while isinstance(tst, ast.UnaryOp) and isinstance(tst.op, ast.Not):
        neg, tst = not neg, tst.operand
    if not (isinstance(tst, ast.Name) and tst.id == t):
        fail(e.test, 'select_one: unsupported test')
    cond = '(!truthy tags)' if neg else 'truthy tags'
    return ('/-- `SoupSieve.select_one(tag)`; `select k` = `self.select(tag, limit=k)`; outer `none` = `IndexError`. -/\n'
            'def selectOne {α : Type} (select : Int → List α) : Option (Option α) :=\n'
            f'  let tags := select {lean_int(k)}\n'
            f'  if {cond} then {val(e.body)} else {val(e.orelse)}')


def arg_names(call, want, what):
    if call.keywords or len(call.args) != len(want) or not all(isinstance(a, ast.Name) and a.id == w for a, w in zip(call.args, want)):
        fail(call, f'{what}: arguments must be exactly ({", ".join(want)})')


def translate_sieve_select(fn):
    tag, limit = params(fn, 2)
    if defaults(fn) != [0]:
        fail(fn, 'SoupSieve.select: default of limit is not 0')
    body = strip_doc(fn.body)
    if len(body) != 1 or not isinstance(body[0], ast.Return):
        fail(fn, 'SoupSieve.select: expected a single return')
    e = body[0].value
    if not (isinstance(e, ast.Call) and isinstance(e.func, ast.Name) and e.func.id == 'list' and len(e.args) == 1 and not e.keywords):
        fail(e, 'SoupSieve.select: expected list(...)')
    c = e.args[0]
    if not (isinstance(c, ast.Call) and is_self_attr(c.func, 'iselect')):
        fail(c, 'SoupSieve.select: expected self.iselect(...)')
    arg_names(c, [tag, limit], 'SoupSieve.select')
    return ('/-- `SoupSieve.select(tag, limit)`; `iselect k` = the values of `self.iselect(tag, k)`. -/\n'
            'def sieveSelect {α : Type} (iselect : Int → List α) (limit : Int) : List α :=\n  pyList (iselect limit)')


def translate_sieve_iselect(fn):
    tag, limit = params(fn, 2)
    if defaults(fn) != [0]:
        fail(fn, 'SoupSieve.iselect: default of limit is not 0')
    body = strip_doc(fn.body)
    if len(body) != 1 or not (isinstance(body[0], ast.Expr) and isinstance(body[0].value, ast.YieldFrom)):
        fail(fn, 'SoupSieve.iselect: expected a single `yield from`')
    args = ctor_call(body[0].value.value, tag, 'select')
    if args is None or len(args) != 1 or not (isinstance(args[0], ast.Name) and args[0].id == limit):
        fail(body[0], 'SoupSieve.iselect: expected CSSMatch(...).select(limit)')
    return ('/-- `SoupSieve.iselect(tag, limit)`; `cssSelect k` = the values of `CSSMatch(self.selectors, tag, self.namespaces, self.flags).select(k)`. -/\n'
            'def sieveIselect {α : Type} (cssSelect : Int → List α) (limit : Int) : List α :=\n  cssSelect limit')


def translate_sieve_filter(fn):
    (it,) = params(fn, 1)
    body = strip_doc(fn.body)
    if len(body) != 1 or not isinstance(body[0], ast.If):
        fail(fn, 'SoupSieve.filter: expected one if/else')
    s = body[0]
    if not isinstance_tag(s.test, it):
        fail(s.test, 'SoupSieve.filter: expected isinstance(<iterable>, bs4.Tag)')
    if len(s.body) != 1 or len(s.orelse) != 1 or not isinstance(s.body[0], ast.Return) or not isinstance(s.orelse[0], ast.Return):
        fail(s, 'SoupSieve.filter: each branch must be a single return')
    a = ctor_call(s.body[0].value, it, 'filter')
    if a is None or a:
        fail(s.body[0], 'SoupSieve.filter: expected CSSMatch(...).filter()')

    def atom(n, x):
        if isinstance(n, ast.Call) and isinstance(n.func, ast.Attribute) and n.func.attr == 'is_navigable_string' \
                and isinstance(n.func.value, ast.Name) and n.func.value.id in ('CSSMatch', 'self') and not n.keywords \
                and len(n.args) == 1 and isinstance(n.args[0], ast.Name) and n.args[0].id == x:
            return 'is_navigable_string x'
        m = self_call(n, 'match')
        if m is not None and len(m) == 1 and isinstance(m[0], ast.Name) and m[0].id == x:
            return 'pmatch x'
        return None
    text = comprehension(s.orelse[0].value, 'SoupSieve.filter', lambda i: isinstance(i, ast.Name) and i.id == it, atom)
    return ('/-- `SoupSieve.filter(iterable)`; `argIsTag` = `isinstance(iterable, bs4.Tag)`, `cssFilter` = the value of\n'
            '    `CSSMatch(self.selectors, iterable, self.namespaces, self.flags).filter()`, `items` = the values of `iterable`,\n'
            '    `pmatch` = `self.match`. -/\n'
            'def sieveFilter {α : Type} (argIsTag : Bool) (cssFilter : List α) (is_navigable_string pmatch : α → Bool) (items : List α) : List α :=\n'
            f'  if argIsTag then cssFilter else items.filter (fun x => {text})')


# ----------------------------------------------------------------------------------------------------- driver

def translate(src_path=SRC):
    with open(src_path, encoding='utf-8') as f:
        tree = ast.parse(f.read())
    parts = []
    sel = find_method(tree, 'CSSMatch', 'select')
    if walk_has(sel, (ast.YieldFrom, ast.Return, ast.Continue, ast.Try, ast.With)):
        fail(sel, 'select: unsupported statement kind')
    parts.append(SelectTr(sel).emit())
    parts.append(translate_match(find_method(tree, 'CSSMatch', 'match')))
    clo = find_method(tree, 'CSSMatch', 'closest')
    if walk_has(clo, (ast.Break, ast.Continue, ast.Yield, ast.YieldFrom, ast.Try, ast.With)):
        fail(clo, 'closest: unsupported statement kind')
    parts.append(ClosestTr(clo).emit())
    parts.append(translate_filter(find_method(tree, 'CSSMatch', 'filter')))
    parts.append(translate_select_one(find_method(tree, 'SoupSieve', 'select_one')))
    parts.append(translate_sieve_select(find_method(tree, 'SoupSieve', 'select')))
    parts.append(translate_sieve_iselect(find_method(tree, 'SoupSieve', 'iselect')))
    parts.append(translate_sieve_filter(find_method(tree, 'SoupSieve', 'filter')))
    head = ('/- GENERATED by gen/gen_py_api.py from the source text of soupsieve/css_match.py (ast):\n'
            '   CSSMatch.select / match / closest / filter, SoupSieve.select_one / select / iselect / filter. Do not edit. -/\n'
            'import SoupVerif.Model.PyApiLoop\n'
            'namespace SoupVerif.Gen.PyApi\n'
            'open SoupVerif.PyApiLoop\n\n')
    return head + '\n\n'.join(parts) + '\n\nend SoupVerif.Gen.PyApi\n', len(parts)


def main(dest):
    text, n = translate()
    old = open(dest).read() if os.path.exists(dest) else None
    if old != text:
        with open(dest, 'w') as f:
            f.write(text)
    return f'{n} functions'


if __name__ == '__main__':
    print(main(sys.argv[1]))
