"""Regenerate lean/SoupVerif/Generated/PyRelations.lean from the SOURCE TEXT (ast) of the relation walks of
`CSSMatch` in $SOUPVERIF_REPO/soupsieve/css_match.py: `match_relations`, `match_past_relations`,
`match_future_relations`, `match_future_child`, `match_subselectors`, and the module-level `REL_* = '<str>'`.

METHOD.  Every function is alpha-normalised on the ast (parameters -> A0, A1, …; locals -> V0, V1, … in order of
first assignment; docstring, annotations, comments, blank lines dropped), unparsed, and the text of each statement
group must FULLMATCH one of the frames below.  Anything else raises `Unsupported` (FAIL CLOSED: gen_all reports
FAILED; an extra `break` / `if` in a loop, a weakened `while not found`, a dropped `no_iframe=` that the frame does
not know, … are refused; a swapped getter or a dropped argument that still fits a frame shows in the table, where
the proof `gen_relationWalk_eq` breaks).

  match_relations(self, el, relation)
      found = False
      if isinstance(relation[0], ct.SelectorNull) or relation[0].rel_type is None: return found
      if relation[0].rel_type.startswith('<prefix>'): found = self.match_future_relations(el, relation)
      else: found = self.match_past_relations(el, relation)
      return found
  match_past_relations / match_future_relations(self, el, relation)
      found = False
      [if isinstance(relation[0], ct.SelectorNull): return found]
      if relation[0].rel_type == REL_X: <branch>  elif … (no else)
      return found
    <branch> is one of
      WALK   x = self.<getter>(el[, no_iframe=self.iframe_restrict])
             while not found and x [and (not self.is_doc(x))]:
                 found = self.match_selectors(x, relation)
                 x = self.<same getter>(x[, same no_iframe])
      ONCE   x = self.<getter>(el[, no_iframe=self.iframe_restrict])
             if x and (not self.is_doc(x) | self.is_tag(x)): found = self.match_selectors(x, relation)
      CALL   found = self.match_future_child(el, relation[, True|False])
    <getter> = get_parent | get_previous_tag | get_next_tag  (no_iframe only on get_parent)
  match_future_child(self, parent, relation, recursive=<bool>)
      match = False
      if recursive: children = self.get_tag_descendants|get_tag_children  else: children = self.…
      for child in children(parent[, no_iframe=self.iframe_restrict]):
          match = self.match_selectors(child, relation)
          if match: break
      return match
  match_subselectors(self, el, selectors)
      match = <bool>
      for sel in selectors:
          if not self.match_selectors(el, sel): match = <bool>
      return match

Emitted (namespace `SoupVerif.Gen.PyRelations`): the `REL_*` constants, `futurePrefix`, `pastBranches`,
`futureBranches`, `branches` (SOURCE order; `Branch` of Model/RelBranch.lean), `subsLoop`, `matchSubselectors`.
"""
import ast
import os
import re
import sys

REPO = os.environ.get('SOUPVERIF_REPO', '/repo')
SRC = os.path.join(REPO, 'soupsieve', 'css_match.py')
CLASS = 'CSSMatch'


class Unsupported(Exception):
    pass


def lean_s(text):
    return '[' + ', '.join(str(ord(ch)) for ch in text) + ']'


def find_method(tree, name):
    found = [item for node in tree.body if isinstance(node, ast.ClassDef) and node.name == CLASS
             for item in node.body if isinstance(item, (ast.FunctionDef, ast.AsyncFunctionDef)) and item.name == name]
    if len(found) != 1 or not isinstance(found[0], ast.FunctionDef):
        raise Unsupported(f'{CLASS}.{name}: expected exactly one plain definition, found {len(found)}')
    return found[0]


class Canon(ast.NodeVisitor):
    """Collect locals in order of first Store (source order)."""

    def __init__(self):
        self.order = []

    def visit_Name(self, n):
        if isinstance(n.ctx, ast.Store) and n.id not in self.order:
            self.order.append(n.id)


def canon(fn, nargs, ndefaults=0):
    """Alpha-normalised statement texts of the body of `fn`; returns (list of stmt nodes, defaults)."""
    a = fn.args
    if fn.decorator_list or a.posonlyargs or a.kwonlyargs or a.vararg or a.kwarg or len(a.args) != nargs \
            or len(a.defaults) != ndefaults:
        raise Unsupported(f'{fn.name}: unexpected signature')
    for n in ast.walk(fn):
        if isinstance(n, (ast.Global, ast.Nonlocal, ast.Lambda, ast.FunctionDef, ast.ClassDef, ast.NamedExpr, ast.ListComp,
                          ast.SetComp, ast.DictComp, ast.GeneratorExp, ast.Await, ast.Yield, ast.YieldFrom, ast.Try,
                          ast.With, ast.Delete, ast.AugAssign, ast.Continue, ast.Starred, ast.AnnAssign)) and n is not fn:
            raise Unsupported(f'{fn.name}: unsupported construct line {n.lineno}')
    names = [x.arg for x in a.args]
    if len(set(names)) != len(names):
        raise Unsupported(f'{fn.name}: duplicate parameters')
    ren = {n: f'A{i}' for i, n in enumerate(names)}
    body = fn.body
    if body and isinstance(body[0], ast.Expr) and isinstance(body[0].value, ast.Constant) and isinstance(body[0].value.value, str):
        body = body[1:]
    cv = Canon()
    for s in body:
        cv.visit(s)
    for n in cv.order:
        if n in ren:
            raise Unsupported(f'{fn.name}: assignment to parameter {n}')
    for i, n in enumerate(cv.order):
        ren[n] = f'V{i}'
    for s in body:
        for n in ast.walk(s):
            if isinstance(n, ast.Name) and n.id in ren:
                n.id = ren[n.id]
            if isinstance(n, ast.Assign) and getattr(n, 'type_comment', None):
                n.type_comment = None
    return body, a.defaults


def text(stmts):
    return '\n'.join(ast.unparse(s) for s in stmts)


def must(pattern, s, what):
    m = re.fullmatch(pattern, s)
    if not m:
        raise Unsupported(f'{what}: statement shape not supported: ' + ' / '.join(s.split('\n'))[:300])
    return m


NI = r'((?:, no_iframe=A0\.iframe_restrict)?)'
GETTER = r'(get_parent|get_previous_tag|get_next_tag)'
AXIS = {'get_parent': 'parentChain', 'get_previous_tag': 'prevTag', 'get_next_tag': 'nextTag',
        'get_tag_descendants': 'descendants', 'get_tag_children': 'children'}
WALK = (r'(V\d+) = A0\.' + GETTER + r'\(A1' + NI + r'\)\n'
        r'while not V0 and \1((?: and \(?not A0\.is_doc\(\1\)\)?)?):\n'
        r'    V0 = A0\.match_selectors\(\1, A2\)\n'
        r'    \1 = A0\.\2\(\1\3\)')
ONCE = (r'(V\d+) = A0\.' + GETTER + r'\(A1' + NI + r'\)\n'
        r'if \1 and \(?(not A0\.is_doc\(\1\)|A0\.is_tag\(\1\))\)?:\n'
        r'    V0 = A0\.match_selectors\(\1, A2\)')
CALL = r'V0 = A0\.match_future_child\(A1, A2((?:, True|, False)?)\)'


def branch(b):
    return (f'{{ axis := .{b["axis"]}, mode := .{b["mode"]}, docStops := {b["doc"]}, tagGuard := {b["tag"]}, '
            f'noIframe := .{b["ni"]} }}')


def ni_of(getter, s, what):
    if s and getter in ('get_previous_tag', 'get_next_tag'):
        raise Unsupported(f'{what}: {getter} takes no no_iframe argument')
    return 'iframeRestrict' if s else 'absent'


def translate_chain(fn, consts, child):
    what = fn.name
    body, _ = canon(fn, 3)
    if len(body) < 3 or text(body[:1]) != 'V0 = False' or text(body[-1:]) != 'return V0':
        raise Unsupported(f'{what}: frame `found = False … return found` not found')
    mid = body[1:-1]
    if len(mid) == 2:
        must(r'if isinstance\(A2\[0\], ct\.SelectorNull\):\n    return V0', text(mid[:1]), what)
        mid = mid[1:]
    if len(mid) != 1 or not isinstance(mid[0], ast.If):
        raise Unsupported(f'{what}: expected one if/elif chain')
    node = mid[0]
    out = []
    while True:
        m = must(r'A2\[0\]\.rel_type == (REL_\w+)', ast.unparse(node.test), what + ' test')
        key = m.group(1)
        if key not in consts:
            raise Unsupported(f'{what}: unknown constant {key}')
        t = text(node.body)
        w, o, c = re.fullmatch(WALK, t), re.fullmatch(ONCE, t), re.fullmatch(CALL, t)
        if w:
            b = {'axis': AXIS[w.group(2)], 'mode': 'walk', 'doc': 'true' if w.group(4) else 'false', 'tag': 'false',
                 'ni': ni_of(w.group(2), w.group(3), what)}
        elif o:
            b = {'axis': AXIS[o.group(2)], 'mode': 'once', 'doc': 'true' if 'is_doc' in o.group(4) else 'false',
                 'tag': 'true' if 'is_tag' in o.group(4) else 'false', 'ni': ni_of(o.group(2), o.group(3), what)}
        elif c:
            if child is None:
                raise Unsupported(f'{what}: match_future_child not translated')
            arg = c.group(1)
            rec = child['default'] if not arg else (arg == ', True')
            b = {'axis': child[rec], 'mode': 'forBreak', 'doc': 'false', 'tag': 'false', 'ni': child['ni']}
        else:
            must(r'(?!)', t, f'{what} branch {key}')
        out.append((key, b))
        if not node.orelse:
            break
        if len(node.orelse) != 1 or not isinstance(node.orelse[0], ast.If):
            raise Unsupported(f'{what}: `else:` suite in the rel_type chain')
        node = node.orelse[0]
    return out


def translate_child(fn):
    body, defaults = canon(fn, 4, 1)
    d = defaults[0]
    if not (isinstance(d, ast.Constant) and type(d.value) is bool):
        raise Unsupported('match_future_child: default of `recursive` is not a bool literal')
    g = r'(get_tag_descendants|get_tag_children)'
    m = must(r'V0 = False\n'
             r'if A3:\n    V1 = A0\.' + g + r'\nelse:\n    V1 = A0\.' + g + r'\n'
             r'for V2 in V1\(A1' + NI + r'\):\n'
             r'    V0 = A0\.match_selectors\(V2, A2\)\n'
             r'    if V0:\n        break\n'
             r'return V0', text(body), 'match_future_child')
    return {True: AXIS[m.group(1)], False: AXIS[m.group(2)], 'ni': 'iframeRestrict' if m.group(3) else 'absent',
            'default': d.value}


def translate_relations(fn):
    body, _ = canon(fn, 3)
    m = must(r'V0 = False\n'
             r'if isinstance\(A2\[0\], ct\.SelectorNull\) or A2\[0\]\.rel_type is None:\n    return V0\n'
             r'if A2\[0\]\.rel_type\.startswith\((.+)\):\n    V0 = A0\.match_future_relations\(A1, A2\)\n'
             r'else:\n    V0 = A0\.match_past_relations\(A1, A2\)\n'
             r'return V0', text(body), 'match_relations')
    v = ast.literal_eval(m.group(1))
    if type(v) is not str:
        raise Unsupported('match_relations: startswith argument is not a str literal')
    return v


def translate_subs(fn):
    body, _ = canon(fn, 3)
    m = must(r'V0 = (True|False)\n'
             r'for V1 in A2:\n'
             r'    if not A0\.match_selectors\(A1, V1\):\n        V0 = (True|False)\n'
             r'return V0', text(body), 'match_subselectors')
    return m.group(1).lower(), m.group(2).lower()


def rel_consts(tree):
    out = {}
    for node in tree.body:
        if isinstance(node, ast.Assign) and len(node.targets) == 1 and isinstance(node.targets[0], ast.Name) \
                and node.targets[0].id.startswith('REL_'):
            if not (isinstance(node.value, ast.Constant) and type(node.value.value) is str):
                raise Unsupported(f'{node.targets[0].id}: not a str literal')
            if node.targets[0].id in out:
                raise Unsupported(f'{node.targets[0].id}: assigned twice')
            out[node.targets[0].id] = node.value.value
    return out


def table(name, rows):
    lines = [f'def {name} : List (Str × Branch) := [']
    lines += [f'  ({k}, {branch(b)})' + (',' if i + 1 < len(rows) else '') for i, (k, b) in enumerate(rows)]
    lines.append(']')
    return '\n'.join(lines)


def translate():
    tree = ast.parse(open(SRC, encoding='utf-8').read())
    consts = rel_consts(tree)
    child = translate_child(find_method(tree, 'match_future_child'))
    past = translate_chain(find_method(tree, 'match_past_relations'), consts, None)
    future = translate_chain(find_method(tree, 'match_future_relations'), consts, child)
    prefix = translate_relations(find_method(tree, 'match_relations'))
    init, assigned = translate_subs(find_method(tree, 'match_subselectors'))
    L = ['/- GENERATED by gen/gen_py_relations.py from the source text of `CSSMatch.match_relations`, `match_past_relations`,',
         '   `match_future_relations`, `match_future_child`, `match_subselectors` and the `REL_*` constants',
         '   (soupsieve/css_match.py). Do not edit. -/',
         'import SoupVerif.Model.RelBranch',
         'namespace SoupVerif.Gen.PyRelations',
         'open SoupVerif',
         '']
    for k in sorted(consts):
        L.append(f'def {k} : Str := {lean_s(consts[k])}')
    L += ['',
          '/-- `relation[0].rel_type.startswith(…)`: then `match_future_relations`, else `match_past_relations` -/',
          f'def futurePrefix : Str := {lean_s(prefix)}',
          '',
          '/-- the `if / elif` chain of `match_past_relations`, in source order -/',
          table('pastBranches', past),
          '',
          '/-- the `if / elif` chain of `match_future_relations`, in source order (`match_future_child` inlined) -/',
          table('futureBranches', future),
          '',
          'def branches : List (Str × Branch) := pastBranches ++ futureBranches',
          '',
          '/-- `match_subselectors`: the flag loop WITHOUT `break` over `selectors` (`p` = `self.match_selectors(el, ·)`) -/',
          'def subsLoop {α : Type} (p : α → Bool) : List α → Bool → Bool',
          '  | [], flag => flag',
          f'  | s :: rest, flag => if !(p s) then subsLoop p rest {assigned} else subsLoop p rest flag',
          '',
          f'def matchSubselectors {{α : Type}} (p : α → Bool) (selectors : List α) : Bool := subsLoop p selectors {init}',
          '',
          'end SoupVerif.Gen.PyRelations',
          '']
    return '\n'.join(L)


def main(dest):
    out = translate()
    old = open(dest).read() if os.path.exists(dest) else None
    if old != out:
        with open(dest, 'w') as f:
            f.write(out)
    return 'REL_*, futurePrefix, pastBranches, futureBranches, branches, subsLoop, matchSubselectors'


if __name__ == '__main__':
    print(main(sys.argv[1]))
