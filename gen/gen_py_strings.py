"""Regenerate Generated/PyStrings.lean: a structural Lean translation of small pure string functions,
read with `ast` from the SOURCE files under $SOUPVERIF_REPO/soupsieve (default /repo/soupsieve):

    css_parser.escape(ident)                    ->  Gen.PyStrings.escapeStep / Gen.PyStrings.escape
    util.lower(string)                          ->  Gen.PyStrings.lowerStep / Gen.PyStrings.lower
    replace(m), nested in css_parser.css_unescape ->  Gen.PyStrings.replace
    the module constants these read             ->  Gen.PyStrings.UC_A, UC_Z, UNICODE_REPLACEMENT_CHAR

What is translated: the expressions (comparisons, chained comparisons, `and` / `or` / `not`, `in` on a tuple
of constants, `a + b`, `x if c else y`, `len(s)`, `ord(c)`, `chr(n)`, `int(s, 16)`, `m.group(k)` (as a truth test, and
`m.group(k)[n:]` where that test is known to have succeeded), `s[k] == 'x'` behind a length guard, natural-number and
string constants, module constants `NAME = <natural>` / `NAME = ord('<c>')`),
local assignments (-> `let`, re-assignment shadows), if / elif / else with the statements that follow them
(-> `if … then … else …`, same branches in the same order; what follows an `if` is continued in both branches),
`return`.
What is a fixed Lean frame (Model/PyStrings.lean) is only the accumulate-and-join loop skeleton, and the
translator CHECKS that the Python has exactly that skeleton.  Everything else raises `Unsupported`
(gen_all.py then reports FAILED and the check treats the proof side as broken): nothing is guessed.

Integers.  Every integer in these functions is a code point (`ord`), a length (`len`), an `enumerate` index, the
value of `int(<text>, 16)` (the text starts with a hex digit where it is taken, so no sign), a non-negative literal or a
sum of such, and the supported subset has no operation that could leave the naturals (no subtraction, negation,
division, modulo: they raise `Unsupported`), so `Nat` is exact and `//` / `%` never arise.

Strings are lists of code points (`Str = List Nat`).  A value statically known to be ONE character (a loop variable
of `for c in s`, `chr(n)`, a one-character literal) is carried as its code point (type "Char" below, `Nat` in Lean) and
becomes the one-element list where a string is needed.  `chr(n)` is the identity on code points; Python raises for
n > 0x10FFFF, and the theorems about the translated terms show that bound holds wherever `chr` is applied.
`int(s, 16)` is `PyStrings.intHex` (value of the leading hex digits; Python additionally strips white space and
raises on other trailing text, see Model/Escape.lean `cssUnescapeRaises`).

The output depends only on the AST: comments, docstrings, type annotations, blank lines, the spelling of
numeric literals (`0x1F` / `31`) and of string quotes do not change it.  Local names are carried over (snake_case
-> camelCase), so renaming a Python local renames a Lean binder (alpha-equivalent output).
"""
import ast
import os
import re
import sys


class Unsupported(Exception):
    """The source uses something outside the translated subset (fail closed)."""


def bad(node, why):
    where = f'line {getattr(node, "lineno", "?")}' if node is not None else ''
    dump = ast.dump(node)[:160] if isinstance(node, ast.AST) else repr(node)
    raise Unsupported(f'{why} ({where}: {dump})')


LEAN_RESERVED = {
    'at', 'by', 'do', 'else', 'end', 'from', 'fun', 'have', 'if', 'in', 'let', 'match', 'open', 'show', 'then', 'with', 'where',
    'def', 'theorem', 'example', 'instance', 'structure', 'inductive', 'namespace', 'section', 'import', 'return', 'for',
    'mut', 'Type', 'Prop', 'Sort', 'set_option', 'variable', 'universe', 'deriving', 'class', 'abbrev', 'axiom', 'using',
    'calc', 'nomatch', 'nofun', 'private', 'protected', 'partial', 'unsafe', 'mutual', 'macro', 'syntax', 'notation',
    'some', 'none', 'true', 'false', 'decide', 'not', 'Nat', 'Bool', 'Str', 'List',
    # names the generated file itself uses (frames of Model/PyStrings.lean and the generated definitions)
    'text', 'truthy', 'intHex', 'groupsOf', 'charLoop', 'escapeLoop', 'escapeLoopFrom', 'escapeStep', 'escape', 'lowerStep', 'lower',
    'replace', 'EscKind', 'Groups',
}


def lean_name(py):
    """snake_case -> camelCase, kept away from Lean keywords and from the names the output itself uses."""
    if not re.fullmatch(r'[A-Za-z_][A-Za-z0-9_]*', py):
        bad(None, f'identifier {py!r} outside [A-Za-z_][A-Za-z0-9_]*')
    parts = [p for p in py.split('_') if p]
    if not parts:
        return 'x' + '_' * len(py)
    name = parts[0] + ''.join(p[:1].upper() + p[1:] for p in parts[1:])
    if py.startswith('_'):
        name = 'u' + name[:1].upper() + name[1:]
    if name in LEAN_RESERVED:
        name += "'"
    return name


def nat(n):
    """Canonical spelling of a natural-number literal (independent of how the source spells it)."""
    return str(n) if n < 10 else f'0x{n:X}'


def str_lit(s):
    return '[' + ', '.join(nat(ord(ch)) for ch in s) + ']'


# types of the translated fragment
NAT, BOOL, STR, CHAR, CHAROPT, OPTSTR, MATCH = 'Nat', 'Bool', 'Str', 'Char', 'Option Char', 'Option Str', 'Groups'
LEAN_TY = {NAT: 'Nat', BOOL: 'Bool', STR: 'Str', CHAR: 'Nat', MATCH: 'Groups'}


class Var:
    def __init__(self, lean, ty, **facts):
        self.lean, self.ty, self.facts = lean, ty, facts


class Env:
    """Python local name -> Var.  Lean binders must stay distinct."""
    def __init__(self, parent=None):
        self.vars = dict(parent.vars) if parent else {}

    def bind(self, py, ty, node=None, **facts):
        ln = lean_name(py)
        for k, v in self.vars.items():
            if v.lean == ln and k != py:
                bad(node, f'locals {k!r} and {py!r} both translate to the Lean name {ln!r}')
        self.vars[py] = Var(ln, ty, **facts)
        return self.vars[py]

    def get(self, node):
        if node.id not in self.vars:
            bad(node, f'name {node.id!r} is not a parameter / local / loop variable of the translated fragment')
        return self.vars[node.id]


CMP = {ast.Eq: '==', ast.NotEq: '!=', ast.Lt: '<', ast.LtE: '≤', ast.Gt: '>', ast.GtE: '≥'}


class Expr:
    """Expression translator.  `tx` returns (lean text, type, is_atomic)."""

    def __init__(self, env, consts=None, facts=()):
        self.env = env
        self.consts = consts    # Consts of the module the function lives in (or None)
        self.used = []          # python names read, in first-use order
        # stack of sets of facts known to hold: ('len', strvar, k) = `len(strvar) > k`; ('truthy', m, k) = `m.group(k)` is truthy
        self.guards = [set(facts)]

    def as_str(self, e):
        """Translate `e` where a string is needed (atomic text)."""
        t, ty, at = self.tx(e)
        if ty == CHAR:
            return f'[{t}]'
        if ty == STR:
            return t if at else f'({t})'
        bad(e, f'a string is needed here, found {ty}')

    def group_call(self, e):
        """`m.group(k)` -> (m, k) or None."""
        if isinstance(e, ast.Call) and isinstance(e.func, ast.Attribute) and e.func.attr == 'group' and isinstance(e.func.value, ast.Name) \
                and e.func.value.id in self.env.vars and self.env.vars[e.func.value.id].ty == MATCH and len(e.args) == 1 and not e.keywords \
                and isinstance(e.args[0], ast.Constant) and type(e.args[0].value) is int and e.args[0].value >= 0:
            return e.func.value.id, e.args[0].value
        return None

    def truth(self, e):
        """Translate `e` as the test of an `if`: (lean text, facts that hold in the then-branch)."""
        g = self.group_call(e)
        if g:
            t, _, _ = self.tx(e)
            return f'truthy ({t})', {('truthy', g[0], g[1])}
        t, ty, _ = self.tx(e)
        if ty != BOOL:
            bad(e, f'truth value of a {ty} is not translated (only booleans and `m.group(k)`)')
        return t, (self.len_facts(e) if isinstance(e, ast.Compare) else set())

    def atom(self, e):
        t, ty, at = self.tx(e)
        return (t if at else f'({t})'), ty

    def tx(self, e):
        if isinstance(e, ast.Constant):
            v = e.value
            if isinstance(v, bool) or v is None:
                bad(e, 'constant of unsupported type')
            if isinstance(v, int):
                if v < 0:
                    bad(e, 'negative integer')
                return nat(v), NAT, True
            if isinstance(v, str) and len(v) == 1:
                return nat(ord(v)), CHAR, True
            if isinstance(v, str):
                return str_lit(v), STR, True
            bad(e, 'constant of unsupported type (only naturals and strings are expressions)')
        if isinstance(e, ast.Name):
            if not isinstance(e.ctx, ast.Load):
                bad(e, 'name in store context')
            if e.id in self.env.vars:
                v = self.env.get(e)
                if e.id not in self.used:
                    self.used.append(e.id)
                return v.lean, v.ty, True
            if self.consts is not None:
                return self.consts.use(e), NAT, True
            self.env.get(e)
        if isinstance(e, ast.Call):
            g = self.group_call(e)
            if g:
                if g[0] not in self.used:
                    self.used.append(g[0])
                return f'{self.env.vars[g[0]].lean} {nat(g[1])}', OPTSTR, False
            if e.keywords or not isinstance(e.func, ast.Name) or e.func.id in self.env.vars:
                bad(e, 'call outside len(x) / ord(c) / chr(n) / int(s, 16) / m.group(k)')
            f = e.func.id
            if f == 'int' and len(e.args) == 2 and isinstance(e.args[1], ast.Constant) and e.args[1].value == 16 \
                    and type(e.args[1].value) is int:
                return f'intHex {self.as_str(e.args[0])}', NAT, False
            if len(e.args) != 1:
                bad(e, 'call outside len(x) / ord(c) / chr(n) / int(s, 16) / m.group(k)')
            if f == 'chr':
                a, ty, at = self.tx(e.args[0])
                if ty != NAT:
                    bad(e, 'chr of a non-integer')
                return a, CHAR, at       # characters ARE their code points in the model (Str = List Nat)
            a, ty, _ = self.tx(e.args[0])
            if not isinstance(e.args[0], ast.Name):
                bad(e, 'len / ord of something that is not a variable')
            if f == 'len' and ty == STR:
                return f'{a}.length', NAT, True
            if f == 'ord' and ty == CHAR:
                return a, NAT, True
            bad(e, 'call outside len(<str>) / ord(<char>) / chr(<nat>) / int(<str>, 16) / m.group(k)')
        if isinstance(e, ast.BinOp):
            if not isinstance(e.op, ast.Add):
                bad(e, 'arithmetic other than + (no operation that could leave the naturals is translated)')
            a, ta = self.atom(e.left)
            b, tb = self.atom(e.right)
            if ta != NAT or tb != NAT:
                bad(e, '+ on non-integers')
            return f'{a} + {b}', NAT, False
        if isinstance(e, ast.IfExp):
            c, cty, _ = self.tx(e.test)
            if cty != BOOL:
                bad(e, 'conditional expression whose test is not a boolean')
            a, ta, _ = self.tx(e.body)
            b, tb, _ = self.tx(e.orelse)
            if ta == tb and ta in (NAT, CHAR, STR, BOOL):
                return f'if {c} then {a} else {b}', ta, False
            if {ta, tb} == {CHAR, STR}:
                return f'if {c} then {self.as_str(e.body)} else {self.as_str(e.orelse)}', STR, False
            bad(e, f'conditional expression between {ta} and {tb}')
        if isinstance(e, ast.Subscript) and isinstance(e.slice, ast.Slice):
            # s[n:]  (suffix from a constant position; never raises on a str)
            sl = e.slice
            if not (sl.upper is None and sl.step is None and isinstance(sl.lower, ast.Constant) and type(sl.lower.value) is int
                    and sl.lower.value >= 0):
                bad(e, 'slice outside <str>[<natural constant>:]')
            g = self.group_call(e.value)
            if g:
                if not any(('truthy', g[0], g[1]) in gs for gs in self.guards):
                    bad(e, f'{g[0]}.group({g[1]})[…] is not inside `if {g[0]}.group({g[1]}):` (it could be None: TypeError)')
                t, _, _ = self.tx(e.value)
                return f'(text ({t})).drop {nat(sl.lower.value)}', STR, False
            a, ty = self.atom(e.value)
            if ty != STR:
                bad(e, 'slice of a non-string')
            return f'{a}.drop {nat(sl.lower.value)}', STR, False
        if isinstance(e, ast.Subscript):
            # s[k] for a constant k: only where `len(s) > k` is known from an earlier operand of the same `and`
            if not (isinstance(e.value, ast.Name) and isinstance(e.slice, ast.Constant) and type(e.slice.value) is int
                    and e.slice.value >= 0):
                bad(e, 'subscript outside <str variable>[<natural constant>]')
            a, ty, _ = self.tx(e.value)
            if ty != STR:
                bad(e, 'subscript of a non-string')
            k = e.slice.value
            if not any(g[0] == 'len' and g[1] == e.value.id and g[2] >= k for gs in self.guards for g in gs):
                bad(e, f'{e.value.id}[{k}] is not behind a guard `len({e.value.id}) > {k}` (Python would raise IndexError)')
            return f'{a}[{nat(k)}]?', CHAROPT, True
        if isinstance(e, ast.UnaryOp) and isinstance(e.op, ast.Not):
            a, ty = self.atom(e.operand)
            if ty != BOOL:
                bad(e, '`not` of a non-boolean')
            return f'!{a}', BOOL, False
        if isinstance(e, ast.BoolOp):
            op = '&&' if isinstance(e.op, ast.And) else '||'
            parts = []
            self.guards.append(set())
            try:
                for v in e.values:
                    t, ty, at = self.tx(v)
                    if ty != BOOL:
                        bad(v, '`and` / `or` operand that is not a boolean (value-returning and/or is not translated)')
                    # a comparison binds tighter than && / || in Lean; nested && / || / ! are parenthesised
                    parts.append(t if at or isinstance(v, ast.Compare) and len(v.ops) == 1 else f'({t})')
                    if isinstance(e.op, ast.And):
                        self.guards[-1] |= self.len_facts(v)
            finally:
                self.guards.pop()
            return f' {op} '.join(parts), BOOL, False
        if isinstance(e, ast.Compare):
            operands = [e.left] + list(e.comparators)
            if len(e.ops) > 1:
                for mid in operands[1:-1]:
                    if not isinstance(mid, (ast.Name, ast.Constant)):
                        bad(e, 'chained comparison whose middle operand is not a variable or constant')
            conj = []
            for lhs, op, rhs in zip(operands, e.ops, operands[1:]):
                conj.append(self.compare(e, lhs, op, rhs))
            if len(conj) == 1:
                return conj[0], BOOL, False
            return ' && '.join(conj), BOOL, False
        bad(e, 'expression outside the translated subset')

    def compare(self, whole, lhs, op, rhs):
        if isinstance(op, (ast.In, ast.NotIn)):
            if not (isinstance(rhs, ast.Tuple) and rhs.elts):
                bad(whole, '`in` whose right side is not a non-empty tuple display')
            a, ty = self.atom(lhs)
            alts = []
            for el in rhs.elts:
                b, tb = self.atom(el)
                if not isinstance(el, ast.Constant) or tb != ty or ty not in (NAT, CHAR):
                    bad(whole, '`in` on a tuple that is not made of constants of the type of the left side')
                alts.append(f'{a} == {b}')
            t = '(' + ' || '.join(alts) + ')'
            return t if isinstance(op, ast.In) else f'!{t}'
        if type(op) not in CMP:
            bad(whole, 'comparison operator outside == != < <= > >= in')
        a, ta = self.atom(lhs)
        b, tb = self.atom(rhs)
        if ta == CHAROPT and tb == CHAR and isinstance(op, (ast.Eq, ast.NotEq)):
            return f'{a} {CMP[type(op)]} some {b}'
        if ta == tb == NAT or (ta == tb and ta in (CHAR, BOOL) and isinstance(op, (ast.Eq, ast.NotEq))):
            return f'{a} {CMP[type(op)]} {b}'
        bad(whole, f'comparison between {ta} and {tb}')

    def len_facts(self, v):
        """Facts `len(s) > k` that hold whenever the boolean expression `v` is true."""
        facts = set()
        if isinstance(v, ast.Compare) and len(v.ops) == 1:
            lhs, op, rhs = v.left, type(v.ops[0]), v.comparators[0]
            flip = {ast.Lt: ast.Gt, ast.LtE: ast.GtE, ast.Eq: ast.Eq}
            if self.len_of(lhs) is None and op in flip:
                lhs, op, rhs = rhs, flip[op], lhs
            s = self.len_of(lhs)
            if s and isinstance(rhs, ast.Constant) and type(rhs.value) is int:
                if op is ast.Gt and rhs.value >= 0:
                    facts.add(('len', s, rhs.value))
                elif op in (ast.GtE, ast.Eq) and rhs.value >= 1:
                    facts.add(('len', s, rhs.value - 1))
        return facts

    def len_of(self, x):
        """The string variable `s` when `x` is `len(s)` or a local assigned `len(s)` (and never reassigned)."""
        if isinstance(x, ast.Call) and isinstance(x.func, ast.Name) and x.func.id == 'len' and len(x.args) == 1 \
                and isinstance(x.args[0], ast.Name) and not x.keywords:
            return x.args[0].id
        if isinstance(x, ast.Name) and x.id in self.env.vars:
            return self.env.vars[x.id].facts.get('len_of')
        return None


# ----------------------------------------------------------------------------------------------- helpers on statements

def function_def(tree, name, node=None):
    found = [n for n in (node or tree).body if isinstance(n, ast.FunctionDef) and n.name == name]
    if len(found) != 1:
        raise Unsupported(f'expected exactly one `def {name}` here, found {len(found)}')
    return found[0]


def body_without_docstring(fn):
    body = list(fn.body)
    if body and isinstance(body[0], ast.Expr) and isinstance(body[0].value, ast.Constant) and isinstance(body[0].value.value, str):
        body = body[1:]
    return body


def plain_params(fn, n):
    a = fn.args
    if a.posonlyargs or a.kwonlyargs or a.vararg or a.kwarg or a.defaults or a.kw_defaults or len(a.args) != n:
        bad(fn, f'{fn.name}: expected exactly {n} plain positional parameter(s) without defaults')
    return [x.arg for x in a.args]


def assign_target(st):
    """(name, value) of `name = value` / `name: T = value` (the annotation is ignored)."""
    if isinstance(st, ast.Assign) and len(st.targets) == 1 and isinstance(st.targets[0], ast.Name):
        return st.targets[0].id, st.value
    if isinstance(st, ast.AnnAssign) and isinstance(st.target, ast.Name) and st.value is not None and st.simple:
        return st.target.id, st.value
    return None


def is_empty_list(e):
    return isinstance(e, ast.List) and not e.elts


def append_arg(st, acc):
    """`acc.append(<arg>)` as a statement -> arg."""
    if isinstance(st, ast.Expr) and isinstance(st.value, ast.Call):
        c = st.value
        if isinstance(c.func, ast.Attribute) and c.func.attr == 'append' and isinstance(c.func.value, ast.Name) \
                and c.func.value.id == acc and len(c.args) == 1 and not c.keywords:
            return c.args[0]
    bad(st, f'statement is not a single `{acc}.append(<piece>)`')


def is_join_return(st, acc):
    if not (isinstance(st, ast.Return) and isinstance(st.value, ast.Call)):
        return False
    c = st.value
    return (isinstance(c.func, ast.Attribute) and c.func.attr == 'join' and isinstance(c.func.value, ast.Constant)
            and c.func.value.value == '' and len(c.args) == 1 and not c.keywords
            and isinstance(c.args[0], ast.Name) and c.args[0].id == acc)


def names_in(nodes):
    out = []
    for n in nodes:
        for x in ast.walk(n):
            if isinstance(x, ast.Name):
                out.append(x.id)
    return out


def fstring_parts(e):
    """f-string -> list of ('lit', text) / ('val', Name node, format spec text or None)."""
    if not isinstance(e, ast.JoinedStr):
        return None
    parts = []
    for v in e.values:
        if isinstance(v, ast.Constant) and isinstance(v.value, str):
            parts.append(('lit', v.value))
        elif isinstance(v, ast.FormattedValue) and v.conversion == -1 and isinstance(v.value, ast.Name):
            spec = None
            if v.format_spec is not None:
                fs = v.format_spec
                if not (isinstance(fs, ast.JoinedStr) and len(fs.values) == 1 and isinstance(fs.values[0], ast.Constant)):
                    bad(e, 'computed format specification')
                spec = fs.values[0].value
            parts.append(('val', v.value, spec))
        else:
            bad(e, 'f-string field outside {name} / {name:spec}')
    return parts


def let_line(var, text):
    return f'  let {var.lean} : {var.ty} := {text}'


class Consts:
    """Module-level constants `NAME = <natural>` / `NAME = ord('<c>')` of one source file, translated from their assignment."""

    def __init__(self, tree, fname, table):
        self.tree, self.fname, self.table = tree, fname, table    # table: name -> (value, file), shared, insertion-ordered

    def use(self, node):
        name = node.id
        stores = [n for n in ast.walk(self.tree) if isinstance(n, ast.Name) and n.id == name and not isinstance(n.ctx, ast.Load)]
        tops = [st for st in self.tree.body if assign_target(st) and assign_target(st)[0] == name]
        if len(tops) != 1 or len(stores) != 1 or any(isinstance(n, (ast.Global, ast.Nonlocal)) and name in n.names for n in ast.walk(self.tree)):
            bad(node, f'{name!r} is not a module constant of {self.fname} assigned exactly once')
        v = assign_target(tops[0])[1]
        if isinstance(v, ast.Constant) and type(v.value) is int and v.value >= 0:
            val = v.value
        elif isinstance(v, ast.Call) and isinstance(v.func, ast.Name) and v.func.id == 'ord' and len(v.args) == 1 and not v.keywords \
                and isinstance(v.args[0], ast.Constant) and isinstance(v.args[0].value, str) and len(v.args[0].value) == 1:
            val = ord(v.args[0].value)
        else:
            bad(tops[0], f'module constant {name!r} is not a natural-number literal or ord(<character>)')
        if not re.fullmatch(r'[A-Z][A-Z0-9_]*', name):
            bad(node, f'module constant {name!r} is not spelled in capitals')
        if self.table.setdefault(name, (val, self.fname)) != (val, self.fname):
            bad(node, f'module constant {name!r} is defined differently in two source files')
        return name


def block(stmts, env, consts, facts, ind, ctx):
    """Statements -> lines of a Lean term of type Str.  Every path must end in `return <string>`."""
    pad = '  ' * ind
    if not stmts:
        bad(None, f'{ctx}: a path reaches the end of the function without `return` (would return None)')
    st, rest = stmts[0], stmts[1:]
    if isinstance(st, ast.Return):
        if rest:
            bad(rest[0], f'{ctx}: statement after `return`')
        if st.value is None:
            bad(st, f'{ctx}: bare `return`')
        return [pad + Expr(env, consts, facts).as_str(st.value)]
    tv = assign_target(st)
    if tv:
        name, value = tv
        text, ty, _ = Expr(env, consts, facts).tx(value)
        if ty not in (NAT, BOOL, STR, CHAR):
            bad(st, f'{ctx}: local of type {ty}')
        env2 = Env(env)
        if name in env2.vars and env2.vars[name].ty == MATCH:
            bad(st, f'{ctx}: the match object is re-assigned')
        v = env2.bind(name, ty, st)
        return [f'{pad}let {v.lean} : {LEAN_TY[ty]} := {text}'] + block(rest, env2, consts, facts, ind, ctx)
    if isinstance(st, ast.If):
        cond, then_facts = Expr(env, consts, facts).truth(st.test)
        then_lines = block(list(st.body) + rest, Env(env), consts, set(facts) | then_facts, ind + 1, ctx)
        else_lines = block(list(st.orelse) + rest, Env(env), consts, facts, ind + 1, ctx)
        return [f'{pad}if {cond} then'] + then_lines + [f'{pad}else'] + else_lines
    bad(st, f'{ctx}: statement outside assignment / if / return')


def memo_decorators_only(fn):
    """Only `@lru_cache(...)` / `@functools.lru_cache(...)` / `@cache` may decorate a translated function: memoising a
    pure function of an immutable argument does not change what it returns."""
    for d in fn.decorator_list:
        f = d.func if isinstance(d, ast.Call) else d
        name = f.id if isinstance(f, ast.Name) else (f.attr if isinstance(f, ast.Attribute) and isinstance(f.value, ast.Name) and f.value.id == 'functools' else None)
        if name not in ('lru_cache', 'cache'):
            bad(d, f'{fn.name}: decorator other than lru_cache')


# -------------------------------------------------------------------------------------------------------------- lower

def translate_lower(tree, consts):
    """util.lower:

        acc = []
        for c in string:
            <local assignments>                 -> let …
            acc.append(<one character>)         -> lowerStep c
        return ''.join(acc)                     -> charLoop lowerStep string"""
    fn = function_def(tree, 'lower')
    memo_decorators_only(fn)
    (param,) = plain_params(fn, 1)
    body = body_without_docstring(fn)
    if len(body) != 3:
        bad(fn, 'lower: body is not `<acc> = []`, one `for`, `return ...join(<acc>)`')
    first = assign_target(body[0])
    if not first or not is_empty_list(first[1]):
        bad(body[0], 'lower: first statement is not `<acc> = []`')
    acc = first[0]
    if not is_join_return(body[2], acc):
        bad(body[2], f"lower: last statement is not `return ''.join({acc})`")
    loop = body[1]
    if not (isinstance(loop, ast.For) and isinstance(loop.target, ast.Name) and isinstance(loop.iter, ast.Name) and loop.iter.id == param
            and not loop.orelse and loop.body):
        bad(loop, f'lower: loop is not `for <c> in {param}` (without else)')
    cvar = loop.target.id
    if len({cvar, acc, param}) != 3:
        bad(loop, 'lower: loop variable clashes with another name')
    env = Env()
    cv = env.bind(cvar, CHAR, loop)
    lets = []
    for st in loop.body[:-1]:
        tv = assign_target(st)
        if not tv:
            bad(st, 'lower: loop statement before the append is not a local assignment')
        name, value = tv
        if name in env.vars or name in (acc, param):
            bad(st, f'lower: {name!r} is assigned twice / shadows another name')
        text, ty, _ = Expr(env, consts).tx(value)
        if ty not in (NAT, BOOL, CHAR):
            bad(st, f'lower: local of type {ty}')
        lets.append(f'  let {env.bind(name, ty, st).lean} : {LEAN_TY[ty]} := {text}')
    piece, ty, _ = Expr(env, consts).tx(append_arg(loop.body[-1], acc))
    if ty != CHAR:
        bad(loop.body[-1], f'lower: the appended piece is a {ty}, not one character')
    pv = Env().bind(param, STR, fn)
    return [f'/-- The body of the loop of `util.lower`: the character appended for the character `{cv.lean}`. -/',
            f'def lowerStep ({cv.lean} : Nat) : Nat :='] + lets + [f'  {piece}', '',
            '/-- `util.lower`. -/',
            f'def lower ({pv.lean} : Str) : Str := charLoop lowerStep {pv.lean}']


# ------------------------------------------------------------------------------------------------------------ replace

def translate_replace(tree, consts):
    """`replace(m)` nested in css_parser.css_unescape, as a function of `m.group`."""
    outer = function_def(tree, 'css_unescape')
    fn = function_def(tree, 'replace', outer)
    if fn.decorator_list:
        bad(fn, 'replace: decorated')
    (param,) = plain_params(fn, 1)
    env = Env()
    mv = env.bind(param, MATCH, fn)
    lines = block(body_without_docstring(fn), env, consts, set(), 1, 'replace')
    return ['/-- The replacement function `replace(m)` of `css_parser.css_unescape`; `m k` is `m.group(k)`. -/',
            f'def replace ({mv.lean} : Groups) : Str :='] + lines


# ------------------------------------------------------------------------------------------------------------- escape

def translate_escape(tree, consts):
    """css_parser.escape:

        acc = []
        <local assignments>                                   -> let …
        if <cond>:   acc.append(f'…{ident}…')                 -> if <cond> then <text>
        else:
            for index, c in enumerate(ident):                 -> else escapeLoop (fun index cp => escapeStep index <flag> cp) ident
                codepoint = ord(c)
                if …: acc.append(P1) elif …: acc.append(P2) … else: acc.append(Pn)      -> escapeStep
        return ''.join(acc)

    with every Pi one of  '\\ufffd' | f'\\\\{codepoint:x} ' | c | f'\\\\{c}'."""
    fn = function_def(tree, 'escape')
    if fn.decorator_list:
        bad(fn, 'escape: decorated')
    (param,) = plain_params(fn, 1)
    body = body_without_docstring(fn)
    if len(body) < 3:
        bad(fn, 'escape: body too short for the accumulate / join frame')
    first = assign_target(body[0])
    if not first or not is_empty_list(first[1]):
        bad(body[0], 'escape: first statement is not `<acc> = []`')
    acc = first[0]
    if not is_join_return(body[-1], acc):
        bad(body[-1], f"escape: last statement is not `return ''.join({acc})`")
    env = Env()
    env.bind(param, STR, fn)
    lets = []
    for st in body[1:-2]:
        tv = assign_target(st)
        if not tv:
            bad(st, 'escape: statement before the main `if` is not a local assignment')
        name, value = tv
        if name in env.vars or name == acc:
            bad(st, f'escape: {name!r} is assigned twice / shadows a parameter')
        ex = Expr(env, consts)
        text, ty, _ = ex.tx(value)
        if ty not in (NAT, BOOL):
            bad(st, f'escape: local of type {ty}')
        facts = {}
        if ex.len_of(value):
            facts['len_of'] = ex.len_of(value)
        lets.append(let_line(env.bind(name, ty, st, **facts), text))
    main = body[-2]
    if not (isinstance(main, ast.If) and len(main.body) == 1 and len(main.orelse) == 1 and isinstance(main.orelse[0], ast.For)):
        bad(main, 'escape: main statement is not `if …: <one append> else: for …`')
    cond, cty, _ = Expr(env, consts).tx(main.test)
    if cty != BOOL:
        bad(main.test, 'escape: condition of the special case is not a boolean')
    # special case: one append of an f-string over literal text and whole string variables
    parts = fstring_parts(append_arg(main.body[0], acc))
    if parts is None:
        bad(main.body[0], 'escape: the special case does not append an f-string')
    pieces = []
    for p in parts:
        if p[0] == 'lit':
            pieces.append(str_lit(p[1]))
        else:
            v = env.get(p[1])
            if v.ty != STR or p[2] is not None:
                bad(main.body[0], 'escape: special-case f-string field is not a plain string variable')
            pieces.append(v.lean)
    special = ' ++ '.join(pieces) if pieces else '[]'
    # the loop
    loop = main.orelse[0]
    it = loop.iter
    if not (isinstance(loop.target, ast.Tuple) and len(loop.target.elts) == 2 and all(isinstance(x, ast.Name) for x in loop.target.elts)
            and isinstance(it, ast.Call) and isinstance(it.func, ast.Name) and it.func.id == 'enumerate' and len(it.args) == 1
            and not it.keywords and isinstance(it.args[0], ast.Name) and it.args[0].id == param and not loop.orelse):
        bad(loop, f'escape: loop is not `for <index>, <c> in enumerate({param})` (without else)')
    ivar, cvar = (x.id for x in loop.target.elts)
    if len({ivar, cvar, acc, *env.vars}) != 3 + len(env.vars):
        bad(loop, 'escape: loop variables clash with other names')
    if len(loop.body) != 2:
        bad(loop, 'escape: loop body is not `<cp> = ord(<c>)` followed by one if/elif/else chain')
    tv = assign_target(loop.body[0])
    if not (tv and isinstance(tv[1], ast.Call) and isinstance(tv[1].func, ast.Name) and tv[1].func.id == 'ord' and not tv[1].keywords
            and len(tv[1].args) == 1 and isinstance(tv[1].args[0], ast.Name) and tv[1].args[0].id == cvar):
        bad(loop.body[0], f'escape: first loop statement is not `<cp> = ord({cvar})`')
    cpvar = tv[0]
    if cpvar in env.vars or cpvar in (acc, ivar, cvar):
        bad(loop.body[0], 'escape: code point variable clashes with another name')
    # the accumulator and the character are used nowhere except as checked here
    chain = loop.body[1]
    step_env = Env(env)
    del step_env.vars[param]                 # the chain may not look at the whole string
    step_env.bind(ivar, NAT, loop)
    step_env.bind(cpvar, NAT, loop)

    def classify(arg):
        if isinstance(arg, ast.Constant) and arg.value == '\ufffd':
            return '.replacement'
        if isinstance(arg, ast.Name) and arg.id == cvar:
            return '.self'
        ps = fstring_parts(arg)
        if ps is not None:
            shape = [(p[0], p[1] if p[0] == 'lit' else p[1].id, None if p[0] == 'lit' else p[2]) for p in ps]
            if shape == [('lit', '\\', None), ('val', cpvar, 'x'), ('lit', ' ', None)]:
                return '.hex'
            if shape == [('lit', '\\', None), ('val', cvar, None)]:
                return '.backslash'
        bad(arg, "escape: appended piece is not one of '\\ufffd' | f'\\\\{cp:x} ' | c | f'\\\\{c}'")

    used = []
    lines = []
    node, first_branch = chain, True
    while True:
        if not isinstance(node, ast.If):
            bad(node, 'escape: loop body does not end in an if/elif/else chain')
        ex = Expr(step_env, consts)
        t, ty, _ = ex.tx(node.test)
        if ty != BOOL:
            bad(node.test, 'escape: branch condition is not a boolean')
        used += [u for u in ex.used if u not in used]
        if len(node.body) != 1:
            bad(node, 'escape: branch with more than one statement')
        kind = classify(append_arg(node.body[0], acc))
        lines.append(f'  {"if" if first_branch else "else if"} {t} then {kind}')
        first_branch = False
        if len(node.orelse) == 1 and isinstance(node.orelse[0], ast.If):
            node = node.orelse[0]
            continue
        if len(node.orelse) != 1:
            bad(node, 'escape: the chain has no final `else: <one append>` (a character could append nothing / several pieces)')
        lines.append(f'  else {classify(append_arg(node.orelse[0], acc))}')
        break
    flags = [u for u in used if u not in (ivar, cpvar)]
    if len(flags) != 1 or step_env.vars[flags[0]].ty != BOOL:
        bad(chain, f'escape: the chain must read exactly one boolean local besides the index and the code point, reads {flags}')
    flag = step_env.vars[flags[0]]
    iv, cv = step_env.vars[ivar], step_env.vars[cpvar]
    out = [f'/-- The if/elif chain of the loop of `css_parser.escape`: which piece is appended for code point `{cv.lean}` at position `{iv.lean}`. -/',
           f'def escapeStep ({iv.lean} : Nat) ({flag.lean} : Bool) ({cv.lean} : Nat) : EscKind :='] + lines
    out += ['', '/-- `css_parser.escape`. -/',
            f'def escape ({env.vars[param].lean} : Str) : Str :='] + lets
    out += [f'  if {cond} then {special}',
            f'  else escapeLoop (fun {iv.lean} {cv.lean} => escapeStep {iv.lean} {flag.lean} {cv.lean}) {env.vars[param].lean}']
    return out


# --------------------------------------------------------------------------------------------------------------- main

def read_tree(src_root, fname):
    with open(os.path.join(src_root, fname), encoding='utf-8') as f:
        return ast.parse(f.read())


def main(dest, src_root=None):
    src_root = src_root or os.path.join(os.environ.get('SOUPVERIF_REPO', '/repo'), 'soupsieve')
    cp_tree = read_tree(src_root, 'css_parser.py')
    util_tree = read_tree(src_root, 'util.py')
    table = {}
    sections = [('css_parser.escape', translate_escape(cp_tree, Consts(cp_tree, 'css_parser.py', table))),
                ('util.lower', translate_lower(util_tree, Consts(util_tree, 'util.py', table))),
                ('replace(m) of css_parser.css_unescape', translate_replace(cp_tree, Consts(cp_tree, 'css_parser.py', table)))]
    lines = ['/- GENERATED by gen/gen_py_strings.py from the source text of soupsieve/css_parser.py and soupsieve/util.py. Do not edit. -/',
             'import SoupVerif.Model.PyStrings', 'namespace SoupVerif.Gen.PyStrings', 'open SoupVerif SoupVerif.PyStrings', '']
    if table:
        lines += ['/-! ### module constants read by the functions below -/', '']
        lines += [f'/-- `{name}` of {fname}. -/\nabbrev {name} : Nat := {nat(val)}' for name, (val, fname) in table.items()] + ['']
    for title, sec in sections:
        lines += [f'/-! ### `{title}` -/', ''] + sec + ['']
    lines.append('end SoupVerif.Gen.PyStrings')
    text = '\n'.join(lines) + '\n'
    old = open(dest).read() if os.path.exists(dest) else None
    if old != text:
        open(dest, 'w').write(text)
    return [t for t, _ in sections]


if __name__ == '__main__':
    print(main(sys.argv[1]))
