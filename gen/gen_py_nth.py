"""Regenerate lean/SoupVerif/Generated/PyNth.lean from the SOURCE TEXT (ast) of `CSSMatch.match_nth` in
$SOUPVERIF_REPO/soupsieve/css_match.py (default /repo).  PARTIAL translation of the positional matcher: the integer
bookkeeping (everything that decides WHICH positions `idx` are tried, in which order, and when the search stops); the child
walk itself (the `for child in self.get_children(...)` loop) is frame-checked, not translated.

FRAME (checked statement by statement on the `ast.unparse` text after the role renaming below; anything else raises
`Unsupported`, gen_all reports FAILED: fail closed)
    matched = True
    for n in nth:
        matched = False
        if n.selectors and not self.match_selectors(el, n.selectors): break
        parent = self.get_parent(el)
        if parent is None: parent = self.create_fake_parent(el)
        <INIT: eleven assignment statements, twelve targets>                         -> `init`
        if <var>: <ADJUSTMENT block>                                                 -> `loop1Cond/Step`, `loop2Cond/Step`, `adjustBlock`
        while <MAIN TEST>:                                                           -> `mainCond`
            child = None
            for child in self.get_children(parent, start=index, reverse=factor < 0): ...   (exact text checked, NOT translated)
            if child is el: break
            <ADVANCE: the remaining statements of the loop body>                     -> `advance`
        if not matched: break
    return matched

ROLES.  The twelve targets of INIT are named BY POSITION `last, last_index, index, relative_index, a, b, var, count,
count_incr, factor, idx, last_idx` (types: `last`, `var` : Bool -- `SelectorNth.__init__` annotates `n: bool, last: bool`,
checked in css_types.py --, the others `Int`: `a`, `b` may be negative and only `*`, `+`, `-` and comparisons occur, no
`//` or `%`).  Every other local is named `x1, x2, ...` in order of first assignment.  Hence renaming any local gives the
same file; comments, docstrings, annotations and blank lines never reach the `ast`.  (Reordering two INIT lines changes
the roles and is refused or breaks the proof: fail closed.)  INIT may read `n.last`, `n.a`, `n.b`, `n.n` and `len(parent)`:
they become the parameters `nLast nA nB nN lenParent`.

Supported statements (ADJUSTMENT, ADVANCE)
    X = E, X = Y = E (E must not read X, Y), X += E, X -= E, if / elif / else, `break` (inside a loop),
    `while T:` without `else` (not nested in another loop) -> `PyWhile.whileBrk <cond> <step> <fuel>` on the tuple of the
    variables that are bound at loop entry and assigned in the body (in role order); the variables the loop only reads are
    parameters of `<cond>` / `<step>`.  A local first assigned inside a loop body must be assigned before it is read on
    every path of ONE iteration (a read of the value of a previous iteration, or after the loop, is refused).
    An `if` continues each branch with the rest of the block (the rest is duplicated).
Supported expressions
    locals, int constants, `-<int>`, `+ - *` on ints, (chained) `< <= > >= == !=` on ints, `X is None`, `X is not None`,
    `X == <int expr>` for an Optional[int] local X (a local somewhere assigned `None`; `X = <int>` stores `some`),
    `not`, `and` / `or` of bools only, `E1 if <bool> else E2` with both arms ints.
"""
import ast
import os
import sys

REPO = os.environ.get('SOUPVERIF_REPO', '/repo')
ROLES = ['last', 'last_index', 'index', 'relative_index', 'a', 'b', 'var', 'count', 'count_incr', 'factor', 'idx', 'last_idx']
BOOL_ROLES = {'last', 'var'}
ATTR_PARAMS = {'last': ('nLast', 'Bool'), 'a': ('nA', 'Int'), 'b': ('nB', 'Int'), 'n': ('nN', 'Bool')}
ATTR_ANNOT = {'last': 'bool', 'a': 'int', 'b': 'int', 'n': 'bool'}


class Unsupported(Exception):
    def __init__(self, msg, node=None):
        where = f' (line {node.lineno}: {ast.unparse(node)[:90]!r})' if node is not None and hasattr(node, 'lineno') else ''
        super().__init__(msg + where)


def strip_doc(body):
    if body and isinstance(body[0], ast.Expr) and isinstance(body[0].value, ast.Constant) and isinstance(body[0].value.value, str):
        return body[1:]
    return body


def camel(name):
    parts = name.split('_')
    return 'v_' + parts[0] + ''.join(p.capitalize() for p in parts[1:])


def indent(text, n):
    pad = ' ' * n
    return '\n'.join(pad + l if l else l for l in text.split('\n'))


def expect(stmt, text, what):
    got = ast.unparse(stmt)
    if got != text:
        raise Unsupported(f'frame: {what}: expected {text!r}, found {got!r}', stmt)


class Rename(ast.NodeTransformer):
    def __init__(self, mapping):
        self.mapping = mapping

    def visit_Name(self, node):
        return ast.copy_location(ast.Name(id=self.mapping.get(node.id, node.id), ctx=node.ctx), node)


def assigned_names(stmts):
    out = []
    for s in stmts:
        for n in ast.walk(s):
            if isinstance(n, ast.Name) and isinstance(n.ctx, ast.Store) and n.id not in out:
                out.append(n.id)
    return out


def read_names(nodes):
    out = set()
    for s in nodes:
        for n in ast.walk(s):
            if isinstance(n, ast.Name) and isinstance(n.ctx, ast.Load):
                out.add(n.id)
    return out


class Translator:
    def __init__(self, order, types):
        self.order = order          # canonical variable order
        self.types = types          # name -> 'Int' | 'Bool' | 'Option Int'
        self.loops = []             # emitted loop definitions
        self.loop_ids = {}
        self.fuels = []

    # ---------------------------------------------------------------- expressions
    def expr(self, e, defined):
        """-> (lean text, type)"""
        if isinstance(e, ast.Name):
            if e.id not in self.types:
                raise Unsupported(f'unknown name {e.id}', e)
            if e.id not in defined:
                raise Unsupported(f'{e.id} may be read before it is assigned', e)
            return camel(e.id), self.types[e.id]
        if isinstance(e, ast.Constant):
            if type(e.value) is int and e.value >= 0:
                return f'({e.value} : Int)', 'Int'
            if type(e.value) is bool:
                return ('true' if e.value else 'false'), 'Bool'
            raise Unsupported('constant', e)
        if isinstance(e, ast.UnaryOp) and isinstance(e.op, ast.USub) and isinstance(e.operand, ast.Constant) \
                and type(e.operand.value) is int:
            return f'(-{e.operand.value} : Int)', 'Int'
        if isinstance(e, ast.UnaryOp) and isinstance(e.op, ast.Not):
            t, ty = self.expr(e.operand, defined)
            if ty != 'Bool':
                raise Unsupported('`not` of a non-bool', e)
            return f'(!{t})', 'Bool'
        if isinstance(e, ast.BinOp) and isinstance(e.op, (ast.Add, ast.Sub, ast.Mult)):
            l, lt = self.expr(e.left, defined)
            r, rt = self.expr(e.right, defined)
            if lt != 'Int' or rt != 'Int':
                raise Unsupported('arithmetic on non-ints', e)
            op = {ast.Add: '+', ast.Sub: '-', ast.Mult: '*'}[type(e.op)]
            return f'({l} {op} {r})', 'Int'
        if isinstance(e, ast.BoolOp):
            parts = [self.expr(v, defined) for v in e.values]
            if any(ty != 'Bool' for _, ty in parts):
                raise Unsupported('`and` / `or` of non-bools', e)
            op = ' && ' if isinstance(e.op, ast.And) else ' || '
            return '(' + op.join(t for t, _ in parts) + ')', 'Bool'
        if isinstance(e, ast.IfExp):
            c, ct = self.expr(e.test, defined)
            x, xt = self.expr(e.body, defined)
            y, yt = self.expr(e.orelse, defined)
            if ct != 'Bool' or xt != 'Int' or yt != 'Int':
                raise Unsupported('conditional expression: need bool test and int arms', e)
            return f'(if {c} then {x} else {y})', 'Int'
        if isinstance(e, ast.Compare):
            if len(e.ops) == 1 and isinstance(e.ops[0], (ast.Is, ast.IsNot)):
                if not (isinstance(e.comparators[0], ast.Constant) and e.comparators[0].value is None):
                    raise Unsupported('`is` only against None', e)
                t, ty = self.expr(e.left, defined)
                if ty != 'Option Int':
                    raise Unsupported('`is None` on a local that is never None', e)
                return (f'{t}.isNone' if isinstance(e.ops[0], ast.Is) else f'{t}.isSome'), 'Bool'
            operands = [self.expr(x, defined) for x in [e.left] + e.comparators]
            if len(e.ops) == 1 and isinstance(e.ops[0], ast.Eq) and operands[0][1] == 'Option Int' and operands[1][1] == 'Int':
                return f'({operands[0][0]} == some {operands[1][0]})', 'Bool'
            if any(ty != 'Int' for _, ty in operands):
                raise Unsupported('comparison of non-ints', e)
            sym = {ast.Lt: '<', ast.LtE: '≤', ast.Gt: '>', ast.GtE: '≥', ast.Eq: '=', ast.NotEq: '≠'}
            parts = []
            for i, op in enumerate(e.ops):
                if type(op) not in sym:
                    raise Unsupported('comparison operator', e)
                parts.append(f'decide ({operands[i][0]} {sym[type(op)]} {operands[i + 1][0]})')
            return '(' + ' && '.join(parts) + ')', 'Bool'
        raise Unsupported('expression', e)

    # ---------------------------------------------------------------- statements
    def tuple_of(self, names):
        return '(' + ', '.join(camel(v) for v in names) + ')'

    def tuple_type(self, names):
        return ' × '.join(('(' + self.types[v] + ')') if ' ' in self.types[v] else self.types[v] for v in names)

    def assign(self, name, e, defined):
        if name not in self.types:
            raise Unsupported(f'assignment to unknown name {name}', e)
        ty = self.types[name]
        if isinstance(e, ast.Constant) and e.value is None:
            if ty != 'Option Int':
                raise Unsupported('None stored in an int local', e)
            return f'let {camel(name)} : Option Int := none'
        t, ety = self.expr(e, defined)
        if ty == 'Option Int' and ety == 'Int':
            return f'let {camel(name)} : Option Int := some {t}'
        if ty != ety:
            raise Unsupported(f'{name} : {ty} assigned a {ety}', e)
        return f'let {camel(name)} : {ty} := {t}'

    def block(self, stmts, defined, ctx):
        """The statements `stmts`, then the end of the enclosing construct `ctx`."""
        if not stmts:
            if ctx['kind'] == 'loop':
                return f'({self.tuple_of(ctx["state"])}, false)'
            return f'some {self.tuple_of(ctx["result"])}'
        s, rest = stmts[0], stmts[1:]
        if isinstance(s, ast.AnnAssign) and s.value is not None and s.simple:
            s = ast.copy_location(ast.Assign(targets=[s.target], value=s.value), s)
        if isinstance(s, ast.Assign):
            names = []
            for t in s.targets:
                if not isinstance(t, ast.Name):
                    raise Unsupported('assignment target', s)
                names.append(t.id)
            if len(names) > 1 and read_names([s.value]) & set(names):
                raise Unsupported('chained assignment reading its own target', s)
            lines = [self.assign(nm, s.value, defined) for nm in names]
            return '\n'.join(lines) + '\n' + self.block(rest, defined | set(names), ctx)
        if isinstance(s, ast.AugAssign):
            if not (isinstance(s.target, ast.Name) and isinstance(s.op, (ast.Add, ast.Sub))):
                raise Unsupported('augmented assignment', s)
            v = ast.BinOp(left=ast.Name(id=s.target.id, ctx=ast.Load()), op=s.op, right=s.value)
            ast.copy_location(v, s)
            ast.fix_missing_locations(v)
            if self.types.get(s.target.id) != 'Int':
                raise Unsupported('augmented assignment to a non-int', s)
            return self.assign(s.target.id, v, defined) + '\n' + self.block(rest, defined, ctx)
        if isinstance(s, ast.If):
            c, ct = self.expr(s.test, defined)
            if ct != 'Bool':
                raise Unsupported('`if` on a non-bool', s)
            return (f'if {c} then\n' + indent(self.block(list(s.body) + rest, set(defined), ctx), 2)
                    + '\nelse\n' + indent(self.block(list(s.orelse) + rest, set(defined), ctx), 2))
        if isinstance(s, ast.Break):
            if ctx['kind'] != 'loop':
                raise Unsupported('break outside a translated loop', s)
            return f'({self.tuple_of(ctx["state"])}, true)'
        if isinstance(s, ast.While):
            if ctx['kind'] != 'top' or s.orelse:
                raise Unsupported('nested while / while-else', s)
            k, state, params = self.loop(s, defined)
            fuel = f'fuel{k}'
            return (f'match PyWhile.whileBrk (loop{k}Cond{"".join(" " + camel(p) for p in params)}) '
                    f'(loop{k}Step{"".join(" " + camel(p) for p in params)}) {fuel} {self.tuple_of(state)} with\n'
                    f'| none => none\n| some {self.tuple_of(state)} =>\n' + indent(self.block(rest, set(defined), ctx), 2))
        raise Unsupported('statement', s)

    def loop(self, s, defined):
        if id(s) in self.loop_ids:
            return self.loop_ids[id(s)]
        assigned = assigned_names(s.body)
        state = [v for v in self.order if v in assigned and v in defined]
        reads = read_names([s.test] + list(s.body))
        params = [v for v in self.order if v in reads and v in defined and v not in state]
        for v in assigned:
            if v not in self.types:
                raise Unsupported(f'loop assigns unknown name {v}', s)
        k = len(self.loops) + 1
        self.loop_ids[id(s)] = (k, state, params)
        self.loops.append(None)
        ptxt = ''.join(f' ({camel(p)} : {self.types[p]})' for p in params)
        sty = self.tuple_type(state)
        c, ct = self.expr(s.test, set(defined))
        if ct != 'Bool':
            raise Unsupported('`while` on a non-bool', s)
        body = self.block(list(s.body), set(defined), {'kind': 'loop', 'state': state})
        text = (f'/-- `while {ast.unparse(s.test)}` (line order {k}): the test -/\n'
                f'def loop{k}Cond{ptxt} (st : {sty}) : Bool :=\n  match st with\n  | {self.tuple_of(state)} =>\n' + indent(c, 4) + '\n\n'
                f'/-- its body: `(state, true)` = `break` -/\n'
                f'def loop{k}Step{ptxt} (st : {sty}) : ({sty}) × Bool :=\n  match st with\n  | {self.tuple_of(state)} =>\n' + indent(body, 4) + '\n')
        self.loops[k - 1] = text
        self.fuels.append(f'fuel{k}')
        return k, state, params


def check_selector_nth():
    path = os.path.join(REPO, 'soupsieve', 'css_types.py')
    tree = ast.parse(open(path).read())
    cls = [n for n in tree.body if isinstance(n, ast.ClassDef) and n.name == 'SelectorNth']
    if len(cls) != 1:
        raise Unsupported('css_types.SelectorNth not found')
    init = [n for n in cls[0].body if isinstance(n, ast.FunctionDef) and n.name == '__init__']
    if len(init) != 1:
        raise Unsupported('SelectorNth.__init__ not found')
    ann = {a.arg: (ast.unparse(a.annotation) if a.annotation is not None else None) for a in init[0].args.args}
    for k, v in ATTR_ANNOT.items():
        if ann.get(k) != v:
            raise Unsupported(f'SelectorNth.__init__: parameter {k} is annotated {ann.get(k)!r}, expected {v!r}')


def translate():
    check_selector_nth()
    path = os.path.join(REPO, 'soupsieve', 'css_match.py')
    tree = ast.parse(open(path).read())
    cls = [n for n in tree.body if isinstance(n, ast.ClassDef) and n.name == 'CSSMatch']
    if len(cls) != 1:
        raise Unsupported('class CSSMatch')
    fns = [n for n in cls[0].body if isinstance(n, ast.FunctionDef) and n.name == 'match_nth']
    if len(fns) != 1 or fns[0].decorator_list:
        raise Unsupported('CSSMatch.match_nth')
    fn = fns[0]
    if [a.arg for a in fn.args.args] != ['self', 'el', 'nth'] or fn.args.vararg or fn.args.kwarg or fn.args.kwonlyargs or fn.args.defaults:
        raise Unsupported('match_nth: parameters', fn)
    body = strip_doc(fn.body)
    if len(body) != 3:
        raise Unsupported('match_nth: expected `matched = True`, one `for`, `return matched`', fn)
    expect(body[0], 'matched = True', 'first statement')
    expect(body[2], 'return matched', 'last statement')
    loop = body[1]
    if not (isinstance(loop, ast.For) and ast.unparse(loop.target) == 'n' and ast.unparse(loop.iter) == 'nth' and not loop.orelse):
        raise Unsupported('match_nth: expected `for n in nth:`', loop)
    fb = loop.body
    if len(fb) != 4 + 11 + 3:
        raise Unsupported(f'match_nth: the `for` body has {len(fb)} statements, expected 18', loop)
    expect(fb[0], 'matched = False', 'for body 1')
    expect(fb[1], 'if n.selectors and (not self.match_selectors(el, n.selectors)):\n    break', 'the `of S` pre-test')
    expect(fb[2], 'parent = self.get_parent(el)', 'parent')
    expect(fb[3], 'if parent is None:\n    parent = self.create_fake_parent(el)', 'fake parent')
    expect(fb[17], 'if not matched:\n    break', 'end of the for body')

    # ---- roles by position
    init_stmts = fb[4:15]
    targets = []
    for s in init_stmts:
        if isinstance(s, ast.AnnAssign) and s.value is not None and s.simple:
            s = ast.Assign(targets=[s.target], value=s.value)
        if not (isinstance(s, ast.Assign) and all(isinstance(t, ast.Name) for t in s.targets)):
            raise Unsupported('INIT: expected an assignment to plain names', s)
        targets.append([t.id for t in s.targets])
    flat = [x for ts in targets for x in ts]
    if [len(ts) for ts in targets] != [1] * 10 + [2] or len(set(flat)) != 12:
        raise Unsupported('INIT: expected ten single assignments and one `x = y = ...` to twelve distinct names', init_stmts[0])
    reserved = {'self', 'el', 'nth', 'n', 'matched', 'parent', 'child'}
    if set(flat) & reserved:
        raise Unsupported('INIT: a role variable reuses a frame name', init_stmts[0])
    mapping = dict(zip(flat, ROLES))
    # every other local: x1, x2, ... in order of first assignment
    others = [v for v in assigned_names(fb) if v not in mapping and v not in reserved]
    for i, v in enumerate(others):
        mapping[v] = f'x{i + 1}'
    clash = (set(ROLES) | {f'x{i + 1}' for i in range(len(others))}) & (read_names(fb) - set(mapping))
    if clash:
        raise Unsupported(f'a canonical name is used for something else: {sorted(clash)}')
    fb = [Rename(mapping).visit(s) for s in fb]
    for s in fb:
        ast.fix_missing_locations(s)
    extra = [mapping[v] for v in others]
    order = ROLES + extra
    types = {r: ('Bool' if r in BOOL_ROLES else 'Int') for r in ROLES}
    for x in extra:
        types[x] = 'Int'
    for s in fb:
        for node in ast.walk(s):
            if isinstance(node, ast.Assign) and isinstance(node.value, ast.Constant) and node.value.value is None:
                for t in node.targets:
                    if isinstance(t, ast.Name) and t.id in extra:
                        types[t.id] = 'Option Int'
    tr = Translator(order, types)

    # ---- piece 1: INIT
    class InitRename(ast.NodeTransformer):
        def visit_Attribute(self, node):
            if isinstance(node.value, ast.Name) and node.value.id == 'n' and node.attr in ATTR_PARAMS:
                return ast.copy_location(ast.Name(id='@' + ATTR_PARAMS[node.attr][0], ctx=ast.Load()), node)
            raise Unsupported('INIT: attribute read', node)

        def visit_Call(self, node):
            if ast.unparse(node) == 'len(parent)':
                return ast.copy_location(ast.Name(id='@lenParent', ctx=ast.Load()), node)
            raise Unsupported('INIT: call', node)
    itypes = dict(types)
    for nm, ty in list(ATTR_PARAMS.values()) + [('lenParent', 'Int')]:
        itypes['@' + nm] = ty
    itr = Translator(order, itypes)
    defined = {'@' + nm for nm, _ in ATTR_PARAMS.values()} | {'@lenParent'}
    lines = []
    for s in fb[4:15]:
        if isinstance(s, ast.AnnAssign):
            s = ast.copy_location(ast.Assign(targets=[s.target], value=s.value), s)
        value = InitRename().visit(s.value)
        ast.fix_missing_locations(value)
        names = [t.id for t in s.targets]
        if read_names([value]) & set(names):
            raise Unsupported('INIT: assignment reads its own target', s)
        for nm in names:
            lines.append(itr.assign(nm, value, defined))
        defined |= set(names)
    init_text = '\n'.join(lines).replace('v_@', '')
    all_ty = tr.tuple_type(ROLES)
    out = []
    out.append('/-- the twelve assignments before the adjustment block, as a function of `n.last`, `n.a`, `n.b`, `n.n`, `len(parent)`:\n'
               '    `(last, last_index, index, relative_index, a, b, var, count, count_incr, factor, idx, last_idx)` -/\n'
               f'def init (nLast : Bool) (nA nB : Int) (nN : Bool) (lenParent : Int) :\n    {all_ty} :=\n'
               + indent(init_text, 2) + '\n  ' + tr.tuple_of(ROLES) + '\n')

    # ---- piece 2: the adjustment block
    adj = fb[15]
    if not (isinstance(adj, ast.If) and ast.unparse(adj.test) == 'var' and not adj.orelse):
        raise Unsupported('expected `if <var>:` (the adjustment block) after INIT', adj)
    entry = set(ROLES)
    result = [v for v in order if v in assigned_names([adj]) and v in entry]
    adj_text = tr.block([adj], set(entry), {'kind': 'top', 'result': result})
    reads = read_names([adj])
    params = [v for v in ROLES if v in reads or v in result]
    loops_text = '\n'.join(tr.loops)
    out.append(loops_text)
    out.append('/-- the block `if var:` (the two loops get the fuels in source order); `none` = a fuel did not suffice.\n'
               f'    Result: `{", ".join(result)}` after the block -/\n'
               f'def adjustBlock ({" ".join(tr.fuels)} : Nat)' + ''.join(f' ({camel(p)} : {types[p]})' for p in params)
               + f' :\n    Option ({tr.tuple_type(result)}) :=\n' + indent(adj_text, 2) + '\n')
    adjust_params, adjust_result = params, result

    # ---- piece 3: the main loop: its test and the advance of idx
    main = fb[16]
    if not (isinstance(main, ast.While) and not main.orelse and len(main.body) >= 4):
        raise Unsupported('expected the main `while`', main)
    expect(main.body[0], 'child = None', 'main loop 1')
    expect(main.body[1],
           'for child in self.get_children(parent, start=index, reverse=factor < 0):\n'
           '    index += factor\n'
           '    if not isinstance(child, bs4.Tag):\n        continue\n'
           '    if n.selectors and (not self.match_selectors(child, n.selectors)):\n        continue\n'
           '    if n.of_type and (not self.match_nth_tag_type(el, child)):\n        continue\n'
           '    relative_index += 1\n'
           '    if relative_index == idx:\n        if child is el:\n            matched = True\n        else:\n            break\n'
           '    if child is el:\n        break', 'the child walk')
    expect(main.body[2], 'if child is el:\n    break', 'main loop 3')
    tail = main.body[3:]
    mtr = Translator(order, types)
    c, ct = mtr.expr(main.test, set(ROLES))
    if ct != 'Bool':
        raise Unsupported('main test', main)
    mparams = [v for v in ROLES if v in read_names([main.test])]
    out.append(f'/-- the test of the main loop `while {ast.unparse(main.test)}` -/\n'
               'def mainCond' + ''.join(f' ({camel(p)} : {types[p]})' for p in mparams) + ' : Bool :=\n  ' + c + '\n')
    state = [v for v in order if v in assigned_names(tail) and v in set(ROLES)]
    for v in assigned_names(tail):
        if v not in ROLES:
            raise Unsupported(f'ADVANCE assigns the non-role local {v}', tail[0])
    aparams = [v for v in ROLES if v in read_names(tail) and v not in state]
    adv = mtr.block(list(tail), set(ROLES), {'kind': 'loop', 'state': state})
    if mtr.loops:
        raise Unsupported('ADVANCE: loop', tail[0])
    out.append(f'/-- the statements of the main loop body after the child walk (`{", ".join(state)}`; `true` = `break`) -/\n'
               'def advance' + ''.join(f' ({camel(p)} : {types[p]})' for p in aparams)
               + ''.join(f' ({camel(p)} : {types[p]})' for p in state)
               + f' :\n    ({mtr.tuple_type(state)}) × Bool :=\n' + indent(adv, 2) + '\n')

    header = ('/- GENERATED by gen/gen_py_nth.py from the source text of soupsieve/css_match.py (CSSMatch.match_nth). Do not edit. -/\n'
              'import SoupVerif.Model.PyWhile\nnamespace SoupVerif.Gen.PyNth\nopen SoupVerif\nset_option linter.unusedVariables false\n\n')
    meta = (f'/-- parameters of `adjustBlock` after the fuels, and its result -/\n'
            f'def adjustParams : List String := [{", ".join(chr(34) + p + chr(34) for p in adjust_params)}]\n'
            f'def adjustResult : List String := [{", ".join(chr(34) + p + chr(34) for p in adjust_result)}]\n'
            f'def advanceParams : List String := [{", ".join(chr(34) + p + chr(34) for p in aparams + state)}]\n')
    return header + '\n'.join(out) + '\n' + meta + '\nend SoupVerif.Gen.PyNth\n'


def main(dest):
    text = translate()
    old = open(dest).read() if os.path.exists(dest) else None
    if old != text:
        with open(dest, 'w') as f:
            f.write(text)
    return 'match_nth: init, adjustment block (2 loops), main test, advance'


if __name__ == '__main__':
    print(main(sys.argv[1]))
