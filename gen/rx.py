"""Translate Python regular expressions (via `re._parser`) into the `Rx` AST of the Lean model.

The same tree is rendered two ways: as an s-expression for the line protocol (`to_sx`) and as
Lean terms with hash-consed shared sub-terms (`LeanEmitter`).  Anything the model does not
support raises `Unsupported`: translators fail closed.
"""
import re
import re._parser as sre_parse
import re._constants as C


class Unsupported(Exception):
    pass


CATS = {
    C.CATEGORY_SPACE: 0, C.CATEGORY_NOT_SPACE: 1,
    C.CATEGORY_DIGIT: 2, C.CATEGORY_NOT_DIGIT: 3,
    C.CATEGORY_WORD: 4, C.CATEGORY_NOT_WORD: 5,
}


def parse(pattern, flags=0):
    """Return the Rx tree (nested tuples) of a pattern string or compiled pattern."""
    if hasattr(pattern, 'pattern'):
        flags = pattern.flags
        pattern = pattern.pattern
    p = sre_parse.parse(pattern, flags)
    gflags = p.state.flags
    return _seq(p, bool(gflags & re.I), bool(gflags & re.S)), dict(p.state.groupdict)


def _seq(items, ic, dotall):
    out = [_node(op, av, ic, dotall) for op, av in items]
    if len(out) == 1:
        return out[0]
    return ('seq', tuple(out))


def _node(op, av, ic, dotall):
    if op is C.LITERAL:
        return ('lit', av, ic)
    if op is C.NOT_LITERAL:
        return ('notLit', av, ic)
    if op is C.ANY:
        return ('any', dotall)
    if op is C.IN:
        neg = False
        items = []
        for iop, iav in av:
            if iop is C.NEGATE:
                neg = True
            elif iop is C.LITERAL:
                items.append(('ch', iav))
            elif iop is C.RANGE:
                items.append(('range', iav[0], iav[1]))
            elif iop is C.CATEGORY:
                if iav not in CATS:
                    raise Unsupported(f'category {iav}')
                items.append(('cat', CATS[iav]))
            else:
                raise Unsupported(f'set item {iop}')
        return ('set', neg, tuple(items), ic)
    if op is C.BRANCH:
        _, alts = av
        return ('alt', tuple(_seq(a, ic, dotall) for a in alts))
    if op is C.SUBPATTERN:
        group, add_flags, del_flags, p = av
        ic2 = (ic or bool(add_flags & re.I)) and not bool(del_flags & re.I)
        dot2 = (dotall or bool(add_flags & re.S)) and not bool(del_flags & re.S)
        inner = _seq(p, ic2, dot2)
        if group is None:
            return inner
        return ('group', group, inner)
    if op in (C.MAX_REPEAT, C.MIN_REPEAT):
        mn, mx, p = av
        return ('rep', mn, None if mx is C.MAXREPEAT else mx, op is C.MAX_REPEAT, _seq(p, ic, dotall))
    if op is C.AT:
        if av in (C.AT_BEGINNING, C.AT_BEGINNING_STRING):
            return ('bos',)
        if av is C.AT_END:
            return ('eol',)
        if av is C.AT_END_STRING:
            return ('eos',)
        raise Unsupported(f'at {av}')
    if op in (C.ASSERT, C.ASSERT_NOT):
        direction, p = av
        return ('look', direction == 1, op is C.ASSERT_NOT, _seq(p, ic, dotall))
    raise Unsupported(f'op {op}')


def size(t):
    k = t[0]
    if k in ('seq', 'alt'):
        return 1 + sum(size(x) for x in t[1])
    if k == 'group':
        return 1 + size(t[2])
    if k == 'rep':
        return 1 + size(t[4])
    if k == 'look':
        return 1 + size(t[3])
    return 1


def b(x):
    return '1' if x else '0'


def to_sx(t):
    """S-expression for the driver."""
    k = t[0]
    if k == 'lit':
        return f'(0 {t[1]} {b(t[2])})'
    if k == 'notLit':
        return f'(1 {t[1]} {b(t[2])})'
    if k == 'any':
        return f'(2 {b(t[1])})'
    if k == 'set':
        items = ' '.join(_item_sx(i) for i in t[2])
        return f'(3 {b(t[1])} ({items}) {b(t[3])})'
    if k == 'seq':
        return '(4 (' + ' '.join(to_sx(x) for x in t[1]) + '))'
    if k == 'alt':
        return '(5 (' + ' '.join(to_sx(x) for x in t[1]) + '))'
    if k == 'group':
        return f'(6 {t[1]} {to_sx(t[2])})'
    if k == 'rep':
        mx = '()' if t[2] is None else f'({t[2]})'
        return f'(7 {t[1]} {mx} {b(t[3])} {to_sx(t[4])})'
    if k == 'bos':
        return '(8)'
    if k == 'eol':
        return '(9)'
    if k == 'eos':
        return '(10)'
    if k == 'look':
        return f'(11 {b(t[1])} {b(t[2])} {to_sx(t[3])})'
    raise Unsupported(k)


def _item_sx(i):
    if i[0] == 'ch':
        return f'(0 {i[1]})'
    if i[0] == 'range':
        return f'(1 {i[1]} {i[2]})'
    return f'(2 {i[1]})'


LEAN_CATS = ['.space', '.notSpace', '.digit', '.notDigit', '.word', '.notWord']


def lb(x):
    return 'true' if x else 'false'


class LeanEmitter:
    """Emit Lean `Rx` terms; sub-trees that occur more than once (and are not tiny) become
    their own `def`s so that the big token patterns stay small."""

    def __init__(self, prefix='rx'):
        self.prefix = prefix
        self.counts = {}
        self.names = {}
        self.defs = []

    def count(self, t):
        self.counts[t] = self.counts.get(t, 0) + 1
        k = t[0]
        if self.counts[t] > 1:
            return
        if k in ('seq', 'alt'):
            for x in t[1]:
                self.count(x)
        elif k == 'group':
            self.count(t[2])
        elif k == 'rep':
            self.count(t[4])
        elif k == 'look':
            self.count(t[3])

    def term(self, t, top=False):
        if not top and t in self.names:
            return self.names[t]
        if not top and self.counts.get(t, 0) > 1 and size(t) >= 3:
            body = self.term(t, top=True)
            name = f'{self.prefix}_{len(self.names)}'
            self.names[t] = name
            self.defs.append(f'def {name} : Rx := {body}')
            return name
        k = t[0]
        if k == 'lit':
            return f'.lit {t[1]} {lb(t[2])}'
        if k == 'notLit':
            return f'.notLit {t[1]} {lb(t[2])}'
        if k == 'any':
            return f'.any {lb(t[1])}'
        if k == 'set':
            items = ', '.join(self._item(i) for i in t[2])
            return f'.set {lb(t[1])} [{items}] {lb(t[3])}'
        if k == 'seq':
            return '.seq [' + ', '.join(self.term(x) for x in t[1]) + ']'
        if k == 'alt':
            return '.alt [' + ', '.join(self.term(x) for x in t[1]) + ']'
        if k == 'group':
            return f'.group {t[1]} ({self.term(t[2])})'
        if k == 'rep':
            mx = 'none' if t[2] is None else f'(some {t[2]})'
            return f'.rep {t[1]} {mx} {lb(t[3])} ({self.term(t[4])})'
        if k == 'bos':
            return '.bos'
        if k == 'eol':
            return '.eol'
        if k == 'eos':
            return '.eos'
        if k == 'look':
            return f'.look {lb(t[1])} {lb(t[2])} ({self.term(t[3])})'
        raise Unsupported(k)

    def _item(self, i):
        if i[0] == 'ch':
            return f'.ch {i[1]}'
        if i[0] == 'range':
            return f'.range {i[1]} {i[2]}'
        return f'.cat {LEAN_CATS[i[1]]}'
