"""Regenerate lean/SoupVerif/Generated/PySmallFn.lean from the SOURCE TEXT (ast) of

  soupsieve/css_parser.py   process_custom(custom)                        -> Gen.PySmallFn.customStep
  soupsieve/css_match.py    CSSMatch.match_defined(el)                    -> Gen.PySmallFn.match_defined
                            CSSMatch.match_placeholder_shown(el)          -> Gen.PySmallFn.match_placeholder_shown
                            CSSMatch.match_scope(el)                      -> Gen.PySmallFn.match_scope
                            CSSMatch.match_own_dir(el, directionality, inherit) -> Gen.PySmallFn.match_own_dir

under $SOUPVERIF_REPO (default /repo).  Support definitions: lean/SoupVerif/Model/SmallFnDyn.lean.

process_custom (TYPED translation: every local is a `str`, the dictionary is `Parser.Custom`)
  frame, CHECKED (anything else raises `Unsupported`):
      D = {}
      if <param> is not None:
          for K, VAL in <param>.items():
              <loop body>
      return D
  loop body -> `customStep env d k v : Except Exc Custom`, statements in source order:
      X = <str expr>                       let xN : Str := …
      if <bool expr>: raise E(<anything>)  if … then .error .E else …        (E in SelectorSyntaxError, KeyError; no else)
      D[<str expr>] = VAL                  let d := dictSet d … v
  str exprs   locals, K, `util.lower(e)` (soupsieve.util.lower), `css_unescape(e[, <bool literal>])` (the function of the
              same module; a missing second argument is the DEFAULT READ FROM ITS `def`)
  bool exprs  `R.match(e) is None` / `is not None` (R a module-level compiled pattern that gen_regexes emits as
              `Gen.cp_<R>`), `e in D` / `e not in D`, `not b`

CSSMatch tests (SHALLOW translation over the dynamic values `PySmallFn.V`, one `def f (c : Ctx) (l : Loc) (e : Elem) : V`)
  parameters  exactly `(self, el)`
  statements  `X = <expr>` (also `X: T = <expr>`); `if <test>: <assignments of ONE local bound before>` [else …]; `return <expr>` (last)
  exprs       None / bool / str / int constants, `-<int literal>`, locals, `not`, `and`, `or`, conditional expressions,
              `==` `!=` `is None` `is not None` `in (…)` `not in (…)` (one comparison operator), `self.scope is el`,
              `a.find(b)`, `self.get_tag(el)`, `self.get_prefix(el)`, `self.get_text(el[, no_iframe=<bool>])` (default read
              from the `def`), `self.scope`

match_own_dir (a DECISION CHAIN over the same values, `def f (c) (l) (e) (p0 p1 : V) : V`; see `DecisionTranslator`): early
  `return`s (`return` / `return None` / falling off the end = `.none`), `if`/`elif`/`else` at any depth, local assignments,
  `for X in <str expr>:` with `return` inside (no break / continue / else), and additionally the expressions `a & b`,
  `ct.<NAME>` (non-negative int constant of the live soupsieve.css_types), `<DICT>.get(k, d)` (module-level dict of
  str -> int, emitted from the live module), `util.lower(x)`, `unicodedata.bidirectional(x)`, `cast(T, x)`, `el is None`,
  `self.is_html_tag(el)`, `self.is_root(el)`, `self.find_bidi(el)`, `self.get_attribute_by_name(el, a, d)`, and the one idiom
  `''.join(N for N in self.get_contents(el[, no_iframe=<bool>]) if self.is_content_string(N))`.

Everything else raises `Unsupported`: the translator FAILS CLOSED (gen_all reports FAILED, the pipeline treats the proof
side as broken).  Comments, docstrings, annotations, blank lines and the NAMES of parameters and locals do not reach the
output (locals are numbered in order of first assignment).
"""
import ast
import os
import sys
import types

REPO = os.environ.get('SOUPVERIF_REPO', '/repo')
SRC_PARSER = os.path.join(REPO, 'soupsieve', 'css_parser.py')
SRC_MATCH = os.path.join(REPO, 'soupsieve', 'css_match.py')
CLASS = 'CSSMatch'
TESTS = ['match_defined', 'match_placeholder_shown', 'match_scope']
DECISIONS = ['match_own_dir']
EXCEPTIONS = ('SelectorSyntaxError', 'KeyError')


class Unsupported(Exception):
    pass


def fail(fname, node, why):
    text = ''
    try:
        text = ' '.join(ast.unparse(node).split())[:200]
    except Exception:
        pass
    raise Unsupported(f'{fname}: {why} line {getattr(node, "lineno", "?")}: {text}')


def lean_s(text):
    return '[' + ', '.join(str(ord(ch)) for ch in text) + ']'


def lb(b):
    return 'true' if b else 'false'


def strip_doc(body):
    if body and isinstance(body[0], ast.Expr) and isinstance(body[0].value, ast.Constant) \
            and isinstance(body[0].value.value, str):
        return body[1:]
    return body


class _DropAnnotations(ast.NodeTransformer):
    """`x: T = v` is `x = v` (annotations of locals are not evaluated at run time)."""
    def visit_AnnAssign(self, node):
        if node.value is None or not isinstance(node.target, ast.Name) or not node.simple:
            return node                   # left in place: the statement translators refuse it
        return ast.copy_location(ast.Assign(targets=[node.target], value=node.value), node)


def plain_params(fn, n, fname):
    a = fn.args
    if not isinstance(fn, ast.FunctionDef) or fn.decorator_list or a.posonlyargs or a.kwonlyargs or a.vararg or a.kwarg \
            or a.defaults or a.kw_defaults or len(a.args) != n:
        fail(fname, fn, f'not a plain undecorated function of {n} parameters without defaults')
    return [x.arg for x in a.args]


def is_name(e, name):
    return isinstance(e, ast.Name) and e.id == name


def bool_default(fn, param, fname):
    """Default value (a bool literal) of parameter `param` of the `def` node `fn`."""
    a = fn.args
    if a.posonlyargs or a.kwonlyargs or a.vararg or a.kwarg:
        fail(fname, fn, 'unsupported parameter list')
    names = [x.arg for x in a.args]
    if param not in names:
        fail(fname, fn, f'no parameter {param!r}')
    i = names.index(param) - (len(names) - len(a.defaults))
    if i < 0:
        fail(fname, fn, f'parameter {param!r} has no default')
    d = a.defaults[i]
    if not (isinstance(d, ast.Constant) and type(d.value) is bool):
        fail(fname, d, f'default of {param!r} is not a bool literal')
    return names, d.value


# ====================================================================== process_custom
class CustomTranslator:
    F = 'process_custom'

    def __init__(self, tree, module):
        self.tree = tree
        self.m = module
        found = [n for n in tree.body if isinstance(n, (ast.FunctionDef, ast.AsyncFunctionDef)) and n.name == self.F]
        if len(found) != 1:
            raise Unsupported(f'{self.F}: expected exactly one module-level definition, found {len(found)}')
        self.fn = found[0]
        (self.param,) = plain_params(self.fn, 1, self.F)
        self.slots = {}
        self.stores = {n.id for n in ast.walk(self.fn) if isinstance(n, ast.Name) and isinstance(n.ctx, (ast.Store, ast.Del))}
        for n in ast.walk(self.fn):
            if isinstance(n, (ast.Global, ast.Nonlocal, ast.Lambda, ast.FunctionDef, ast.ClassDef, ast.NamedExpr,
                              ast.ListComp, ast.SetComp, ast.DictComp, ast.GeneratorExp)) and n is not self.fn:
                fail(self.F, n, 'unsupported construct')

    def fail(self, node, why):
        fail(self.F, node, why)

    def global_ok(self, name):
        return name not in self.stores and name != self.param

    def slot(self, name):
        if name not in self.slots:
            self.slots[name] = len(self.slots)
        return f'x{self.slots[name]}'

    # -------------------------------------------------------------- expressions
    def sx(self, e, env):
        """a `str` expression"""
        if isinstance(e, ast.Name):
            if e.id in env:
                return env[e.id]
            self.fail(e, 'unsupported name (unbound local, the dictionary, or the value used as a string)')
        if isinstance(e, ast.Call):
            if e.keywords or any(isinstance(a, ast.Starred) for a in e.args):
                self.fail(e, 'keyword / starred arguments')
            f = e.func
            if isinstance(f, ast.Attribute) and is_name(f.value, 'util') and f.attr == 'lower':
                util = getattr(self.m, 'util', None)
                real = sys.modules.get(self.m.__package__ + '.util')
                if not self.global_ok('util') or not isinstance(util, types.ModuleType) or util is not real or len(e.args) != 1:
                    self.fail(e, '`util.lower` is not soupsieve.util.lower / wrong arity')
                return f'(lower {self.sx(e.args[0], env)})'
            if is_name(f, 'css_unescape'):
                defs = [n for n in self.tree.body if isinstance(n, ast.FunctionDef) and n.name == 'css_unescape']
                live = getattr(self.m, 'css_unescape', None)
                if not self.global_ok('css_unescape') or len(defs) != 1 or not isinstance(live, types.FunctionType) \
                        or live.__module__ != self.m.__name__ or live.__code__.co_firstlineno != defs[0].lineno:
                    self.fail(e, '`css_unescape` is not the function defined in this module')
                names, dflt = bool_default(defs[0], 'string', self.F)
                if names != ['content', 'string']:
                    self.fail(defs[0], 'css_unescape parameters are not (content, string)')
                if len(e.args) == 1:
                    flag = dflt
                elif len(e.args) == 2 and isinstance(e.args[1], ast.Constant) and type(e.args[1].value) is bool:
                    flag = e.args[1].value
                else:
                    self.fail(e, 'css_unescape arguments')
                return f'(Parser.cssUnescape env Gen.lexicon {self.sx(e.args[0], env)} {lb(flag)})'
        self.fail(e, 'unsupported string expression')

    def bx(self, e, env):
        """a `bool` expression"""
        if isinstance(e, ast.UnaryOp) and isinstance(e.op, ast.Not):
            return f'(!{self.bx(e.operand, env)})'
        if isinstance(e, ast.Compare) and len(e.ops) == 1:
            op, l, r = e.ops[0], e.left, e.comparators[0]
            if isinstance(op, (ast.Is, ast.IsNot)) and isinstance(r, ast.Constant) and r.value is None:
                # R.match(x) is None
                if isinstance(l, ast.Call) and not l.keywords and len(l.args) == 1 and isinstance(l.func, ast.Attribute) \
                        and l.func.attr == 'match' and isinstance(l.func.value, ast.Name):
                    rname = l.func.value.id
                    import re
                    if not self.global_ok(rname) or not isinstance(getattr(self.m, rname, None), re.Pattern) \
                            or not rname.isidentifier() or not rname.isascii():
                        self.fail(l, f'{rname} is not a module-level compiled pattern')
                    t = f'(PySmallFn.reMatchIsNone env Gen.cp_{rname} {self.sx(l.args[0], env)})'
                    return t if isinstance(op, ast.Is) else f'(!{t})'
                self.fail(e, '`is None` on something other than `R.match(x)`')
            if isinstance(op, (ast.In, ast.NotIn)) and is_name(r, env['#dict']):
                t = f'(PySmallFn.dictHas d {self.sx(l, env)})'
                return t if isinstance(op, ast.In) else f'(!{t})'
        self.fail(e, 'unsupported condition')

    # -------------------------------------------------------------- statements
    def step(self, stmts, env):
        if not stmts:
            return ['.ok d']
        st, rest = stmts[0], stmts[1:]
        if isinstance(st, ast.Assign):
            if len(st.targets) != 1:
                self.fail(st, 'multiple targets')
            t = st.targets[0]
            if isinstance(t, ast.Name):
                if t.id in (env['#dict'], env['#k'], env['#v'], self.param):
                    self.fail(st, 'assignment to the dictionary / a loop variable / the parameter')
                val = self.sx(st.value, env)
                env = dict(env)
                env[t.id] = self.slot(t.id)
                return [f'let {env[t.id]} : Str := {val}'] + self.step(rest, env)
            if isinstance(t, ast.Subscript) and is_name(t.value, env['#dict']) and is_name(st.value, env['#v']):
                return [f'let d : Parser.Custom := PySmallFn.dictSet d {self.sx(t.slice, env)} v'] + self.step(rest, env)
            self.fail(st, 'unsupported assignment')
        if isinstance(st, ast.If):
            if st.orelse or len(st.body) != 1 or not isinstance(st.body[0], ast.Raise):
                self.fail(st, 'expected `if <cond>: raise E(...)` without else')
            r = st.body[0]
            if r.cause is not None or not isinstance(r.exc, ast.Call) or not isinstance(r.exc.func, ast.Name):
                self.fail(r, 'expected `raise E(...)`')
            exc = r.exc.func.id
            if exc not in EXCEPTIONS or not self.global_ok(exc):
                self.fail(r, 'unsupported exception type')
            live = getattr(self.m, exc, None) if exc != 'KeyError' else (None if hasattr(self.m, 'KeyError') else KeyError)
            if not (isinstance(live, type) and live.__name__ == exc):
                self.fail(r, f'{exc} is not the expected class')
            return [f'if {self.bx(st.test, env)} then .error .{exc} else'] + self.step(rest, env)
        self.fail(st, 'unsupported statement in the loop body')

    def translate(self):
        body = strip_doc(list(self.fn.body))
        if len(body) != 3:
            self.fail(self.fn, 'body is not `D = {}` / `if … is not None: for …` / `return D`')
        init, guard, ret = body
        if not (isinstance(init, ast.Assign) and len(init.targets) == 1 and isinstance(init.targets[0], ast.Name)
                and isinstance(init.value, ast.Dict) and not init.value.keys):
            self.fail(init, 'expected `D = {}`')
        d = init.targets[0].id
        if not (isinstance(ret, ast.Return) and is_name(ret.value, d)):
            self.fail(ret, 'expected `return D`')
        t = guard.test if isinstance(guard, ast.If) else None
        if not (isinstance(guard, ast.If) and not guard.orelse and len(guard.body) == 1
                and isinstance(t, ast.Compare) and len(t.ops) == 1 and isinstance(t.ops[0], ast.IsNot)
                and is_name(t.left, self.param) and isinstance(t.comparators[0], ast.Constant) and t.comparators[0].value is None):
            self.fail(guard, 'expected `if <param> is not None:` with one statement, no else')
        loop = guard.body[0]
        if not (isinstance(loop, ast.For) and not loop.orelse and isinstance(loop.target, ast.Tuple) and len(loop.target.elts) == 2
                and all(isinstance(x, ast.Name) for x in loop.target.elts)
                and isinstance(loop.iter, ast.Call) and not loop.iter.args and not loop.iter.keywords
                and isinstance(loop.iter.func, ast.Attribute) and loop.iter.func.attr == 'items'
                and is_name(loop.iter.func.value, self.param)):
            self.fail(loop, 'expected `for K, V in <param>.items():`')
        k, v = [x.id for x in loop.target.elts]
        if len({k, v, d, self.param}) != 4:
            self.fail(loop, 'loop variables clash')
        for n in ast.walk(loop):
            if isinstance(n, (ast.Break, ast.Continue, ast.Return, ast.While, ast.Try, ast.With)) or (isinstance(n, ast.For) and n is not loop):
                self.fail(n, 'unsupported statement in the loop')
        lines = self.step(list(loop.body), {'#dict': d, '#k': k, '#v': v, k: 'k'})
        return ('/-- the body of `for key, value in custom.items():` of `process_custom` (frame checked by the translator:\n'
                '    `D = {}`; `if custom is not None:` the loop; `return D`) -/\n'
                'def customStep (env : CharEnv) (d : Parser.Custom) (k v : Str) : Except PySmallFn.Exc Parser.Custom :=\n'
                + '\n'.join('  ' + ln for ln in lines) + '\n')


# ====================================================================== CSSMatch tests
class TestTranslator:
    NEXTRA = 0                                        # parameters after (self, el): values `p0`, `p1`, …

    def __init__(self, tree, cls, fn, module):
        self.tree = tree
        self.cls = cls
        self.fn = fn
        self.name = fn.name
        self.m = module
        self.self_, self.el, *self.extra = plain_params(fn, 2 + self.NEXTRA, self.name)
        self.assigned = {n.id for n in ast.walk(fn) if isinstance(n, ast.Name) and isinstance(n.ctx, (ast.Store, ast.Del))}
        if self.assigned & ({self.self_, self.el} | set(self.extra)):
            self.fail(fn, 'assignment to a parameter')
        self.slots = {}
        self.allowed_genexp = set()

    def env0(self):
        return {x: f'p{i}' for i, x in enumerate(self.extra)}

    def live_global(self, name, node):
        if name in self.assigned or name in (self.self_, self.el) or name in self.extra or not hasattr(self.m, name):
            self.fail(node, f'{name} is not a module-level name')
        return getattr(self.m, name)

    def fail(self, node, why):
        fail(self.name, node, why)

    def method(self, name, node):
        """The `def` a call `self.<name>(…)` reaches: in the class, else in its (single-inheritance, same-module) bases."""
        cls = self.cls
        for _ in range(8):
            found = [i for i in cls.body if isinstance(i, (ast.FunctionDef, ast.AsyncFunctionDef)) and i.name == name]
            if len(found) > 1 or (found and (not isinstance(found[0], ast.FunctionDef) or not (
                    found[0].decorator_list == [] or (len(found[0].decorator_list) == 1 and is_name(found[0].decorator_list[0], 'classmethod'))))):
                self.fail(node, f'{cls.name}.{name}: expected one plain definition')
            if found:
                return found[0]
            if len(cls.bases) != 1 or not isinstance(cls.bases[0], ast.Name) or cls.keywords:
                break
            nxt = [n for n in self.tree.body if isinstance(n, ast.ClassDef) and n.name == cls.bases[0].id]
            if len(nxt) != 1:
                break
            cls = nxt[0]
        self.fail(node, f'{CLASS}.{name}: definition not found')

    def ex(self, e, env):
        if isinstance(e, ast.Name) and e.id == self.el:
            return '(pyEl l)'
        if isinstance(e, ast.BinOp) and isinstance(e.op, ast.BitAnd):
            return f'(pyBitAnd {self.ex(e.left, env)} {self.ex(e.right, env)})'
        if isinstance(e, ast.Attribute) and is_name(e.value, 'ct'):
            ct = self.live_global('ct', e)
            if not isinstance(ct, types.ModuleType) or ct is not sys.modules.get(self.m.__package__ + '.css_types') \
                    or type(getattr(ct, e.attr, None)) is not int or getattr(ct, e.attr) < 0:
                self.fail(e, 'not a non-negative int constant of soupsieve.css_types')
            return f'(.int {getattr(ct, e.attr)})'
        if isinstance(e, ast.Constant):
            v = e.value
            if v is None:
                return '.none'
            if type(v) is bool:
                return f'(.bool {lb(v)})'
            if type(v) is str:
                return f'(.str {lean_s(v)})'
            if type(v) is int:
                return f'(.int {v})'
            self.fail(e, 'unsupported constant')
        if isinstance(e, ast.UnaryOp) and isinstance(e.op, ast.USub) and isinstance(e.operand, ast.Constant) \
                and type(e.operand.value) is int:
            return f'(.int (-{e.operand.value}))'
        if isinstance(e, ast.Name):
            if e.id in env:
                return env[e.id]
            self.fail(e, 'unsupported name (unbound local, or a parameter used as a value)')
        if isinstance(e, ast.Attribute):
            if is_name(e.value, self.self_) and e.attr == 'scope':
                return '(pyScope c)'
            self.fail(e, 'unsupported attribute access')
        if isinstance(e, ast.UnaryOp) and isinstance(e.op, ast.Not):
            return f'(pyNot {self.ex(e.operand, env)})'
        if isinstance(e, ast.BoolOp):
            op = 'pyAnd' if isinstance(e.op, ast.And) else 'pyOr'
            vals = [self.ex(v, env) for v in e.values]
            out = vals[-1]
            for v in reversed(vals[:-1]):
                out = f'({op} {v} {out})'
            return out
        if isinstance(e, ast.IfExp):
            return f'(V.ite {self.ex(e.test, env)} {self.ex(e.body, env)} {self.ex(e.orelse, env)})'
        if isinstance(e, ast.Compare):
            if len(e.ops) != 1:
                self.fail(e, 'chained comparison')
            op, l, r = e.ops[0], e.left, e.comparators[0]
            if isinstance(op, (ast.Is, ast.IsNot)):
                if isinstance(r, ast.Constant) and r.value is None:
                    return f'({"pyIsNone" if isinstance(op, ast.Is) else "pyIsNotNone"} {self.ex(l, env)})'
                if is_name(r, self.el):
                    t = f'(pyIs {self.ex(l, env)} (pyEl l))'
                    return t if isinstance(op, ast.Is) else f'(pyNot {t})'
                self.fail(e, '`is` with something other than None / the element')
            if isinstance(op, (ast.Eq, ast.NotEq)):
                return f'({"pyEq" if isinstance(op, ast.Eq) else "pyNe"} {self.ex(l, env)} {self.ex(r, env)})'
            if isinstance(op, (ast.In, ast.NotIn)) and isinstance(r, ast.Tuple):
                if any(isinstance(x, ast.Starred) for x in r.elts):
                    self.fail(e, 'starred item')
                neg = 'Not' if isinstance(op, ast.NotIn) else ''
                return f'(py{neg}InTuple {self.ex(l, env)} [{", ".join(self.ex(x, env) for x in r.elts)}])'
            self.fail(e, 'unsupported comparison')
        if isinstance(e, ast.Call):
            return self.call(e, env)
        self.fail(e, 'unsupported expression')

    def call(self, e, env):
        if any(isinstance(a, ast.Starred) for a in e.args) or any(k.arg is None for k in e.keywords):
            self.fail(e, 'starred arguments')
        f = e.func
        if is_name(f, 'cast') and len(e.args) == 2 and not e.keywords and isinstance(e.args[0], ast.Name):
            import typing
            if self.live_global('cast', e) is not typing.cast:
                self.fail(e, '`cast` is not typing.cast')
            return f'(pyCast {self.ex(e.args[1], env)})'
        if not isinstance(f, ast.Attribute):
            self.fail(e, 'unsupported call')
        if is_name(f.value, 'util') and f.attr == 'lower' and len(e.args) == 1 and not e.keywords:
            if self.live_global('util', e) is not sys.modules.get(self.m.__package__ + '.util'):
                self.fail(e, '`util` is not soupsieve.util')
            return f'(pyLower {self.ex(e.args[0], env)})'
        if is_name(f.value, 'unicodedata') and f.attr == 'bidirectional' and len(e.args) == 1 and not e.keywords:
            import unicodedata
            if self.live_global('unicodedata', e) is not unicodedata:
                self.fail(e, '`unicodedata` is not the standard module')
            return f'(pyBidi c {self.ex(e.args[0], env)})'
        if isinstance(f.value, ast.Name) and f.attr == 'get' and f.value.id not in env and f.value.id != self.self_ \
                and len(e.args) == 2 and not e.keywords:
            d = self.live_global(f.value.id, e)
            if type(d) is not dict or not all(type(k) is str and type(v) is int and v >= 0 for k, v in d.items()):
                self.fail(e, 'not a module-level dict of str -> non-negative int')
            items = ', '.join(f'({lean_s(k)}, (.int {v}))' for k, v in d.items())
            return f'(pyDictGet [{items}] {self.ex(e.args[0], env)} {self.ex(e.args[1], env)})'
        if isinstance(f.value, ast.Constant) and f.value.value == '' and f.attr == 'join' and len(e.args) == 1 and not e.keywords:
            # ''.join(N for N in self.get_contents(el, no_iframe=<bool>) if self.is_content_string(N))
            g = e.args[0]
            ok = isinstance(g, ast.GeneratorExp) and len(g.generators) == 1 and isinstance(g.elt, ast.Name)
            if ok:
                c0 = g.generators[0]
                n = g.elt.id
                it = c0.iter
                ok = (not c0.is_async and is_name(c0.target, n) and n not in env and len(c0.ifs) == 1
                      and isinstance(c0.ifs[0], ast.Call) and not c0.ifs[0].keywords and len(c0.ifs[0].args) == 1
                      and is_name(c0.ifs[0].args[0], n) and isinstance(c0.ifs[0].func, ast.Attribute)
                      and is_name(c0.ifs[0].func.value, self.self_) and c0.ifs[0].func.attr == 'is_content_string'
                      and isinstance(it, ast.Call) and isinstance(it.func, ast.Attribute) and is_name(it.func.value, self.self_)
                      and it.func.attr == 'get_contents' and len(it.args) == 1 and is_name(it.args[0], self.el)
                      and len(it.keywords) <= 1 and all(k.arg == 'no_iframe' and isinstance(k.value, ast.Constant)
                                                        and type(k.value.value) is bool for k in it.keywords))
            if not ok:
                self.fail(e, "expected ''.join(N for N in self.get_contents(el[, no_iframe=<bool>]) if self.is_content_string(N))")
            names, dflt = bool_default(self.method('get_contents', e), 'no_iframe', self.name)
            if names[:2] != [names[0], names[1]] or len(names) != 3 or names[2] != 'no_iframe':
                self.fail(e, 'get_contents parameters are not (self, el, no_iframe)')
            self.method('is_content_string', e)
            flag = it.keywords[0].value.value if it.keywords else dflt
            self.allowed_genexp.add(id(g))
            return f'(pyJoinContentStrings c l {lb(flag)})'
        if is_name(f.value, self.self_):
            if not e.args or not is_name(e.args[0], self.el):
                self.fail(e, 'first argument is not the element')
            simple = {'is_html_tag': 'pyIsHtmlTag c e', 'is_root': 'pyIsRoot c l', 'find_bidi': 'pyFindBidi c l'}
            if f.attr in simple:
                if len(e.args) != 1 or e.keywords:
                    self.fail(e, 'wrong number of arguments')
                d = self.method(f.attr, e)
                if len(d.args.args) != 2 or d.args.defaults or d.args.kwonlyargs or d.args.vararg or d.args.kwarg:
                    self.fail(d, f'{f.attr} parameters are not (self, el)')
                return f'({simple[f.attr]})'
            if f.attr == 'get_attribute_by_name':
                if len(e.args) != 3 or e.keywords:
                    self.fail(e, 'expected get_attribute_by_name(el, name, default)')
                d = self.method(f.attr, e)
                if [a.arg for a in d.args.args][1:] != ['el', 'name', 'default'] or d.args.kwonlyargs or d.args.vararg or d.args.kwarg:
                    self.fail(d, 'get_attribute_by_name parameters are not (self, el, name, default)')
                return f'(pyAttrByName c e {self.ex(e.args[1], env)} {self.ex(e.args[2], env)})'
            if f.attr in ('get_tag', 'get_prefix'):
                if len(e.args) != 1 or e.keywords:
                    self.fail(e, 'wrong number of arguments')
                d = self.method(f.attr, e)
                if len(d.args.args) != 2 or d.args.defaults or d.args.kwonlyargs or d.args.vararg or d.args.kwarg:
                    self.fail(d, f'{f.attr} parameters are not (self, el)')
                return f'({ {"get_tag": "pyGetTag", "get_prefix": "pyGetPrefix"}[f.attr] } c e)'
            if f.attr == 'get_text':
                names, dflt = bool_default(self.method('get_text', e), 'no_iframe', self.name)
                if len(names) != 3 or names[2] != 'no_iframe':
                    self.fail(e, 'get_text parameters are not (self, el, no_iframe)')
                flag = dflt
                extra = list(e.args[1:]) + [k.value for k in e.keywords]
                if len(extra) > 1 or any(k.arg != 'no_iframe' for k in e.keywords):
                    self.fail(e, 'get_text arguments')
                if extra:
                    if not (isinstance(extra[0], ast.Constant) and type(extra[0].value) is bool):
                        self.fail(e, 'no_iframe is not a bool literal')
                    flag = extra[0].value
                return f'(pyGetText c l {lb(flag)})'
            self.fail(e, 'unsupported method of self')
        if f.attr == 'find' and len(e.args) == 1 and not e.keywords:
            return f'(pyFind {self.ex(f.value, env)} {self.ex(e.args[0], env)})'
        self.fail(e, 'unsupported call')

    # -------------------------------------------------------------- statements
    def slot(self, name):
        if name not in self.slots:
            self.slots[name] = len(self.slots)
        return f'x{self.slots[name]}'

    def branch(self, stmts, env, var):
        """Value of local `var` after a branch that only assigns `var`."""
        val = env[var]
        cur = None
        for st in stmts:
            if cur is not None:
                self.fail(st, 'a branch of an `if` may hold one statement')
            if isinstance(st, ast.Assign) and len(st.targets) == 1 and is_name(st.targets[0], var):
                cur = self.ex(st.value, env)
            elif isinstance(st, ast.If):
                cur = self.if_value(st, env, var)
            else:
                self.fail(st, 'unsupported statement in a branch')
        return cur if cur is not None else val

    def if_value(self, st, env, var):
        return f'(V.ite {self.ex(st.test, env)} {self.branch(st.body, env, var)} {self.branch(st.orelse, env, var)})'

    def body(self, stmts, env):
        if not stmts:
            self.fail(self.fn, 'no return')
        st, rest = stmts[0], stmts[1:]
        if isinstance(st, ast.Return):
            if rest or st.value is None:
                self.fail(st, '`return` must be last and return a value')
            return ['' + self.ex(st.value, env)]
        if isinstance(st, ast.Assign):
            if not (len(st.targets) == 1 and isinstance(st.targets[0], ast.Name)):
                self.fail(st, 'unsupported assignment')
            val = self.ex(st.value, env)
            env = dict(env)
            env[st.targets[0].id] = self.slot(st.targets[0].id)
            return [f'let {env[st.targets[0].id]} : V := {val}'] + self.body(rest, env)
        if isinstance(st, ast.If):
            names = {n.id for n in ast.walk(st) if isinstance(n, ast.Name) and isinstance(n.ctx, ast.Store)}
            if len(names) != 1 or not (names <= set(env)):
                self.fail(st, 'an `if` statement must assign exactly one local, bound before it')
            var = next(iter(names))
            return [f'let {env[var]} : V := {self.if_value(st, env, var)}'] + self.body(rest, env)
        self.fail(st, 'unsupported statement')

    def check_constructs(self):
        for n in ast.walk(self.fn):
            if isinstance(n, (ast.Global, ast.Nonlocal, ast.Lambda, ast.ClassDef, ast.NamedExpr, ast.ListComp, ast.SetComp,
                              ast.DictComp, ast.Yield, ast.YieldFrom, ast.Await, ast.Try, ast.With, ast.While, ast.Break,
                              ast.Continue)) \
                    or (isinstance(n, ast.GeneratorExp) and id(n) not in self.allowed_genexp) \
                    or (isinstance(n, ast.FunctionDef) and n is not self.fn):
                self.fail(n, 'unsupported construct')

    def translate(self):
        lines = self.body(strip_doc(list(self.fn.body)), self.env0())
        self.check_constructs()
        return (f'/-- `{CLASS}.{self.name}` -/\n'
                f'def {self.name} (c : Ctx) (l : Loc) (e : Elem) : V :=\n' + '\n'.join('  ' + ln for ln in lines) + '\n')


class DecisionTranslator(TestTranslator):
    """A function that decides by a chain of `if …: return …` (early returns), local assignments and one kind of loop
    (`for X in <str expr>:` whose body may return).  `block(stmts, env, k)` is the value of the function when `stmts` run in
    `env` and `k` is the value of whatever follows a normal end of `stmts`:
      return E              E                                     (`return` / `return None` = `.none`; nothing may follow)
      X = E ; rest          let xN : V := E ; rest
      if T: A else: B ; rest   V.ite T (A ; k') (B ; rest)        when every path of A returns; otherwise the statements after
                                                                  the `if` are translated once per branch: V.ite T (A ; rest) (B ; rest)
      for X in S: A ; rest  pyForStr S (fun X k => A with k) rest   — refused when a local assigned in A is read after the loop
                            or read in A before A assigns it (it would carry a value from one iteration to the next)
      end of the function   .none"""
    NEXTRA = 2

    @staticmethod
    def loads(stmts):
        return {n.id for st in stmts for n in ast.walk(st) if isinstance(n, ast.Name) and isinstance(n.ctx, ast.Load)}

    @staticmethod
    def stores(stmts):
        return {n.id for st in stmts for n in ast.walk(st) if isinstance(n, ast.Name) and isinstance(n.ctx, ast.Store)}

    def terminates(self, stmts):
        if not stmts:
            return False
        last = stmts[-1]
        if isinstance(last, ast.Return):
            return True
        return isinstance(last, ast.If) and self.terminates(last.body) and self.terminates(last.orelse)

    def check_no_carry(self, stmts, carried, definite):
        """No local of `carried` is read in `stmts` before an assignment that certainly ran in the same iteration."""
        definite = set(definite)
        for st in stmts:
            if isinstance(st, ast.Assign):
                exprs, sub = [st.value], []
            elif isinstance(st, ast.Return):
                exprs, sub = ([st.value] if st.value is not None else []), []
            elif isinstance(st, ast.If):
                exprs, sub = [st.test], [st.body, st.orelse]
            else:
                self.fail(st, 'unsupported statement in a loop body')
            for x in exprs:
                bad = (self.loads([x]) & carried) - definite
                if bad:
                    self.fail(st, f'{sorted(bad)} would be carried from one iteration to the next')
            for b in sub:
                self.check_no_carry(b, carried, definite)
            if isinstance(st, ast.Assign) and len(st.targets) == 1 and isinstance(st.targets[0], ast.Name):
                definite.add(st.targets[0].id)

    def block(self, stmts, env, k, kreads, ind):
        pad = '  ' * ind
        if not stmts:
            return pad + k
        st, rest = stmts[0], stmts[1:]
        if isinstance(st, ast.Return):
            if rest:
                self.fail(rest[0], 'statement after `return`')
            return pad + ('.none' if st.value is None else self.ex(st.value, env))
        if isinstance(st, ast.Assign):
            if not (len(st.targets) == 1 and isinstance(st.targets[0], ast.Name)):
                self.fail(st, 'unsupported assignment')
            val = self.ex(st.value, env)
            env = dict(env)
            env[st.targets[0].id] = self.slot(st.targets[0].id)
            return f'{pad}let {env[st.targets[0].id]} : V := {val}\n' + self.block(rest, env, k, kreads, ind)
        if isinstance(st, ast.If):
            test = self.ex(st.test, env)
            if self.terminates(st.body):
                a = self.block(st.body, env, '.err', set(), ind + 1)
            else:
                a = self.block(list(st.body) + rest, env, k, kreads, ind + 1)
            b = self.block(list(st.orelse) + rest, env, k, kreads, ind + 1)
            return f'{pad}(V.ite {test} (\n{a}) (\n{b}))'
        if isinstance(st, ast.For):
            if st.orelse or not isinstance(st.target, ast.Name):
                self.fail(st, 'unsupported loop')
            x = st.target.id
            carried = self.stores(st.body)
            after = self.loads(rest) | kreads
            if x in env or x in carried or (carried | {x}) & after:
                self.fail(st, 'the loop variable / a local assigned in the loop is used after the loop, or the loop variable is not fresh')
            self.check_no_carry(st.body, carried, set())
            seq = self.ex(st.iter, env)
            env_in = dict(env)
            env_in[x] = self.slot(x)
            self.nk = getattr(self, 'nk', 0) + 1
            kn = f'k{self.nk}'
            body = self.block(list(st.body), env_in, kn, set(), ind + 1)
            after_t = self.block(rest, env, k, kreads, ind + 1)
            return f'{pad}(pyForStr {seq} (fun {env_in[x]} {kn} =>\n{body}) (\n{after_t}))'
        self.fail(st, 'unsupported statement')

    def translate(self):
        text = self.block(strip_doc(list(self.fn.body)), self.env0(), '.none', set(), 1)
        self.check_constructs()
        return (f'/-- `{CLASS}.{self.name}` (`p0`, `p1`: the parameters after `el`) -/\n'
                f'def {self.name} (c : Ctx) (l : Loc) (e : Elem) (p0 p1 : V) : V :=\n{text}\n')


def translate():
    from soupsieve import css_parser as cp, css_match as cm
    for mod, path in ((cp, SRC_PARSER), (cm, SRC_MATCH)):
        if not os.path.samefile(mod.__file__, path):
            raise Unsupported(f'the imported {mod.__name__} ({mod.__file__}) is not {path}')
    with open(SRC_PARSER, encoding='utf-8') as f:
        ptree = ast.parse(f.read())
    with open(SRC_MATCH, encoding='utf-8') as f:
        mtree = ast.parse(f.read())
    ptree = ast.fix_missing_locations(_DropAnnotations().visit(ptree))
    mtree = ast.fix_missing_locations(_DropAnnotations().visit(mtree))
    custom = CustomTranslator(ptree, cp).translate()
    classes = [n for n in mtree.body if isinstance(n, ast.ClassDef) and n.name == CLASS]
    if len(classes) != 1:
        raise Unsupported(f'expected exactly one class {CLASS}')
    tests = []
    for name in TESTS:
        found = [i for i in classes[0].body if isinstance(i, (ast.FunctionDef, ast.AsyncFunctionDef)) and i.name == name]
        if len(found) != 1:
            raise Unsupported(f'{CLASS}.{name}: expected exactly one definition, found {len(found)}')
        tests.append(TestTranslator(mtree, classes[0], found[0], cm).translate())
    for name in DECISIONS:
        found = [i for i in classes[0].body if isinstance(i, (ast.FunctionDef, ast.AsyncFunctionDef)) and i.name == name]
        if len(found) != 1:
            raise Unsupported(f'{CLASS}.{name}: expected exactly one definition, found {len(found)}')
        tests.append(DecisionTranslator(mtree, classes[0], found[0], cm).translate())
    lines = [
        '/- GENERATED by gen/gen_py_smallfn.py from the source text of `process_custom` (soupsieve/css_parser.py) and of',
        '   `CSSMatch.match_defined`, `.match_placeholder_shown`, `.match_scope`, `.match_own_dir` (soupsieve/css_match.py).',
        '   Do not edit. -/',
        'import SoupVerif.Model.SmallFnDyn',
        'import SoupVerif.Generated.Regexes',
        'import SoupVerif.Generated.Lexicon',
        'set_option linter.unusedVariables false',
        'namespace SoupVerif.Gen.PySmallFn',
        'open SoupVerif SoupVerif.PySmallFn',
        '',
        custom,
        '\n'.join(tests),
        'end SoupVerif.Gen.PySmallFn',
    ]
    return '\n'.join(lines) + '\n'


def main(dest):
    text = translate()
    old = open(dest).read() if os.path.exists(dest) else None
    if old != text:
        with open(dest, 'w') as f:
            f.write(text)
    return f'customStep + {len(TESTS)} CSSMatch tests + {len(DECISIONS)} decision chain'


if __name__ == '__main__':
    print(main(sys.argv[1]))
