"""Regenerate lean/SoupVerif/Generated/Effects.lean from the *source text* (ast) of
/repo/soupsieve/{css_parser,css_match,util,css_types,__init__,pretty,__meta__}.py.

What is extracted (every function, method and nested function of every file):

sharedWrites   every store that may hit an object that outlives the call: `X.a = v`, `X.a += v`, `del X.a`,
               `X.a[k] = v`, `del X.a[k]`, `X.a.append(...)`-style mutating calls, `setattr(X, ...)`,
               `super().__setattr__(...)`, assignment to a `global` name -- where the receiver `X` is `self`, `cls`,
               a module-level name, a class, or a module alias.  Each entry carries the lifetime of the receiver:
                 underConstruction  `self.*` inside `__init__` / `__new__`: the object is not published yet
                 perCall            `self` of a class that only lives for one API call (declared list PER_CALL,
                                    *checked* against the AST: never instantiated-and-stored at module or class
                                    level, never stored into a longer-lived receiver)
                 shared             `cls`, module-level names, and `self` of a class with an instance (or the class
                                    itself) stored in a module global or class attribute
                 unknown            anything else (the theorem `shared_slots_empty` then fails: fail closed)
localWrites    the same kinds of stores through a local variable or parameter, with what the translator can
               tell about the object: `perCallTyped` (annotation / constructor of a PER_CALL class, or a list of
               them), `freshLocal` (bound in the same function to a display, comprehension or a fresh-container
               call), `unknown`
treeWrites     css_match.py only: every store that may change a Beautiful Soup object
caches         functions decorated with `lru_cache`
debugGuarded   every `if` in css_parser.py whose test mentions `self.debug`, and whether its body only prints
debugReads     other reads of `self.debug`

A statement shape the translator does not know is emitted with lifetime `unknown`.
"""
import ast
import os
import sys

REPO = os.environ.get('SOUPVERIF_REPO', '/repo')
FILES = ['css_parser', 'css_match', 'util', 'css_types', '__init__', 'pretty', '__meta__']
# classes whose instances are created for one API call and dropped (the claim is checked, see per_call_ok)
PER_CALL = {'CSSMatch', 'CSSParser', '_Selector', '_FakeParent', 'SelectorSyntaxError'}
MUTATORS = {'append', 'extend', 'insert', 'pop', 'clear', 'update', 'setdefault', 'remove', 'sort', 'reverse',
            'add', 'discard', 'popitem', 'appendleft', 'popleft', 'extendleft', '__setitem__', '__delitem__',
            '__setattr__', '__delattr__', '__iadd__', 'difference_update', 'intersection_update',
            'symmetric_difference_update'}
FRESH_CALLS = {'list', 'dict', 'set', 'bytearray', 'deque', 'defaultdict', 'OrderedDict', 'sorted', 'groupdict',
               'split', 'copy', 'tuple', 'frozenset'}
# names that hold Beautiful Soup objects in css_match.py, and attribute names of the bs4 tree structure
BS4_NAMES = {'el', 'tag', 'parent', 'child', 'sibling', 'node', 'scope', 'root', 'doc', 'soup', 'element', 'elem',
             'item', 'content', 'descendant', 'ancestor', 'form', 'iframe', 'html', 'current', 'last', 'prev',
             'next_good', 'bs4', 'obj', 'e', 'i', 'c', 'n', 'p', 'tags', 'children', 'siblings', 'iterable',
             'fake_parent', 'frame', 'option', 'optgroup', 'fieldset', 'legend', 'details', 'summary', 'label',
             'input', 'button', 'select', 'textarea', 'meter', 'progress', 'output', 'link', 'area', 'a'}
BS4_ATTRS = {'contents', 'parent', 'attrs', 'next_sibling', 'previous_sibling', 'next_element', 'previous_element',
             'name', 'namespace', 'prefix', 'string', 'children', 'descendants', 'hidden', 'sourceline',
             'sourcepos', 'known_xml', 'is_xml', 'builder', 'original_encoding', 'declared_html_encoding',
             'contains_replacement_characters', 'markup', 'parse_only', 'element_classes', 'can_be_empty_element',
             'cdata_list_attributes', 'preserve_whitespace_tags', 'interesting_string_types'}


def lean_str(s):
    out = []
    for ch in s:
        if ch == '\\':
            out.append('\\\\')
        elif ch == '"':
            out.append('\\"')
        elif ch == '\n':
            out.append('\\n')
        elif ord(ch) < 32 or ord(ch) > 126:
            out.append('\\u{%x}' % ord(ch))
        else:
            out.append(ch)
    return '"' + ''.join(out) + '"'


def root_and_hops(e):
    """(root expression, [hops]) of a receiver chain; a hop is '.attr', '[]' or '()'."""
    hops = []
    while True:
        if isinstance(e, ast.Attribute):
            hops.append('.' + e.attr)
            e = e.value
        elif isinstance(e, ast.Subscript):
            hops.append('[]')
            e = e.value
        elif isinstance(e, ast.Call):
            hops.append('()')
            e = e.func
        else:
            break
    return e, list(reversed(hops))


def ann_classes(ann):
    """Class names mentioned in an annotation (`_Selector`, `list[_Selector]`, `ct.Selector | None`, ...)."""
    if ann is None:
        return set()
    if isinstance(ann, ast.Constant) and isinstance(ann.value, str):
        try:
            ann = ast.parse(ann.value, mode='eval').body
        except SyntaxError:
            return set()
    return {n.id for n in ast.walk(ann) if isinstance(n, ast.Name)} | \
           {n.attr for n in ast.walk(ann) if isinstance(n, ast.Attribute)}


class Module:
    def __init__(self, short, path):
        self.short = short
        self.name = 'soupsieve' if short == '__init__' else 'soupsieve.' + short
        self.tree = ast.parse(open(path, encoding='utf-8').read(), filename=path)
        self.parents = {}
        for n in ast.walk(self.tree):
            for c in ast.iter_child_nodes(n):
                self.parents[id(c)] = n
        self.classes = {c.name: c for c in ast.walk(self.tree) if isinstance(c, ast.ClassDef)}
        self.globals = set()       # module-level bound names
        self.aliases = set()       # module-level names bound by import
        for st in self.tree.body:
            for n in ast.walk(st) if not isinstance(st, (ast.FunctionDef, ast.ClassDef)) else [st]:
                if isinstance(n, (ast.FunctionDef, ast.ClassDef)):
                    self.globals.add(n.name)
                elif isinstance(n, ast.Name) and isinstance(n.ctx, ast.Store):
                    self.globals.add(n.id)
                elif isinstance(n, (ast.Import, ast.ImportFrom)):
                    for al in n.names:
                        b = al.asname or al.name.split('.')[0]
                        self.globals.add(b)
                        self.aliases.add(b)

    def enclosing(self, node, kinds):
        p = self.parents.get(id(node))
        while p is not None and not isinstance(p, kinds):
            p = self.parents.get(id(p))
        return p

    def in_function(self, node):
        return self.enclosing(node, (ast.FunctionDef, ast.AsyncFunctionDef, ast.Lambda)) is not None


def stored_classes(mod):
    """Classes with an instance -- or the class object itself -- stored in a module global or class attribute:
    mentioned in the value of a module-level / class-level assignment, except as the receiver of a method call
    (`C(...).m(...)` keeps no reference to the temporary instance; those are listed separately)."""
    stored, temporaries = set(), []

    def scan_value(v):
        skip = set()
        for n in ast.walk(v):
            if isinstance(n, ast.Call) and isinstance(n.func, ast.Attribute) and isinstance(n.func.value, ast.Call):
                inner = n.func.value
                if isinstance(inner.func, ast.Name) and inner.func.id in mod.classes:
                    skip.add(id(inner.func))
                    temporaries.append((inner.func.id, n.func.attr, n.lineno))
        for n in ast.walk(v):
            if isinstance(n, ast.Name) and n.id in mod.classes and id(n) not in skip:
                stored.add(n.id)

    def visit(stmts):
        for st in stmts:
            if isinstance(st, (ast.Assign, ast.AugAssign)):
                scan_value(st.value)
            elif isinstance(st, ast.AnnAssign) and st.value is not None:
                scan_value(st.value)
            elif isinstance(st, ast.Expr):
                scan_value(st.value)      # e.g. REGISTRY.append(C())
            elif isinstance(st, ast.ClassDef):
                visit(st.body)
            elif isinstance(st, (ast.If, ast.Try, ast.For, ast.While, ast.With)):
                for f in ('body', 'orelse', 'finalbody'):
                    visit(getattr(st, f, []))
                for h in getattr(st, 'handlers', []):
                    visit(h.body)
    visit(mod.tree.body)
    # subclasses / superclasses share the verdict (a stored SpecialPseudoPattern is a SelectorPattern)
    changed = True
    while changed:
        changed = False
        for cname, c in mod.classes.items():
            for b in c.bases:
                if isinstance(b, ast.Name) and b.id in mod.classes:
                    if cname in stored and b.id not in stored:
                        stored.add(b.id); changed = True
    return stored, temporaries


def per_call_ok(mods, cname):
    """A PER_CALL class keeps its promise as far as the AST shows: every `C(...)` sits inside a function and its
    value is bound to a local name, returned, raised, passed on as an argument, used as a receiver, or stored in
    an attribute of `self` of another PER_CALL class."""
    for mod in mods:
        for n in ast.walk(mod.tree):
            if not (isinstance(n, ast.Call) and ((isinstance(n.func, ast.Name) and n.func.id == cname) or
                                                 (isinstance(n.func, ast.Attribute) and n.func.attr == cname))):
                continue
            p = mod.parents.get(id(n))
            if not mod.in_function(n):
                # module level: only as a temporary receiver
                if isinstance(p, ast.Attribute) and isinstance(mod.parents.get(id(p)), ast.Call):
                    continue
                return False
            if isinstance(p, (ast.Return, ast.Raise, ast.Attribute, ast.Call, ast.keyword, ast.Expr, ast.Yield,
                              ast.YieldFrom, ast.IfExp, ast.BoolOp, ast.List, ast.Tuple, ast.comprehension,
                              ast.ListComp, ast.GeneratorExp, ast.Starred)):
                continue
            if isinstance(p, (ast.Assign, ast.AnnAssign)):
                targets = p.targets if isinstance(p, ast.Assign) else [p.target]
                ok = True
                for t in targets:
                    if isinstance(t, ast.Name):
                        continue
                    if isinstance(t, ast.Attribute) and isinstance(t.value, ast.Name) and t.value.id == 'self':
                        cls = mod.enclosing(n, ast.ClassDef)
                        if cls is not None and cls.name in PER_CALL:
                            continue
                    ok = False
                if ok:
                    continue
            return False
    return True


def extract(repo=REPO):
    mods = [Module(f, os.path.join(repo, 'soupsieve', f + '.py')) for f in FILES]
    stored_by_mod = {}
    temporaries = []
    for m in mods:
        st, tmp = stored_classes(m)
        stored_by_mod[m.short] = st
        temporaries += [(m.name, c, meth, ln) for c, meth, ln in tmp]
    all_stored = set().union(*stored_by_mod.values())
    per_call = {c for c in PER_CALL if c not in all_stored and per_call_ok(mods, c)}
    per_call_declared = [(c, c in per_call) for c in sorted(PER_CALL)]

    def class_lifetime(cname):
        if cname in all_stored:
            return 'shared'
        if cname in per_call:
            return 'perCall'
        return 'unknown'

    shared, local, tree, caches, guards, debug_reads = [], [], [], [], [], []

    for mod in mods:
        consts = {}
        for st in mod.tree.body:
            if isinstance(st, ast.Assign) and len(st.targets) == 1 and isinstance(st.targets[0], ast.Name) \
                    and isinstance(st.value, ast.Constant) and isinstance(st.value.value, int):
                consts[st.targets[0].id] = st.value.value

        funcs = [n for n in ast.walk(mod.tree) if isinstance(n, (ast.FunctionDef, ast.AsyncFunctionDef))]
        for fn in funcs:
            cls = mod.enclosing(fn, (ast.ClassDef, ast.FunctionDef, ast.AsyncFunctionDef))
            outer_fn = cls if isinstance(cls, (ast.FunctionDef, ast.AsyncFunctionDef)) else None
            if outer_fn is not None:
                cls = mod.enclosing(fn, ast.ClassDef)
            cname = cls.name if isinstance(cls, ast.ClassDef) else ''
            qual = fn.name if outer_fn is None else outer_fn.name + '.<locals>.' + fn.name

            # caches
            for d in fn.decorator_list:
                target = d.func if isinstance(d, ast.Call) else d
                tn = target.id if isinstance(target, ast.Name) else getattr(target, 'attr', '')
                if tn in ('lru_cache', 'cache'):
                    maxsize = None
                    if tn == 'lru_cache' and isinstance(d, ast.Call):
                        for k in d.keywords:
                            if k.arg == 'maxsize':
                                if isinstance(k.value, ast.Constant) and isinstance(k.value.value, int):
                                    maxsize = k.value.value
                                elif isinstance(k.value, ast.Name) and k.value.id in consts:
                                    maxsize = consts[k.value.id]
                        if d.args and isinstance(d.args[0], ast.Constant) and isinstance(d.args[0].value, int):
                            maxsize = d.args[0].value
                    elif tn == 'lru_cache':
                        maxsize = 128
                    params = [a.arg for a in fn.args.posonlyargs + fn.args.args + fn.args.kwonlyargs]
                    caches.append((mod.name, cname, fn.name, maxsize, params))

            # what the local names are
            params = fn.args.posonlyargs + fn.args.args + fn.args.kwonlyargs + \
                [a for a in (fn.args.vararg, fn.args.kwarg) if a is not None]
            local_kind = {}
            global_names = set()
            for n in ast.walk(fn):
                if isinstance(n, ast.Global):
                    global_names.update(n.names)
            for a in params:
                if ann_classes(a.annotation) & per_call:
                    local_kind[a.arg] = 'perCallTyped'
                else:
                    local_kind.setdefault(a.arg, 'unknown')

            def value_kind(v):
                if isinstance(v, (ast.List, ast.Dict, ast.Set, ast.ListComp, ast.DictComp, ast.SetComp, ast.Tuple)):
                    return 'freshLocal'
                if isinstance(v, (ast.Subscript, ast.Attribute)):
                    # an element / attribute of a per-call object (`sel = relations[0]`, relations: list[_Selector])
                    r_, h_ = root_and_hops(v)
                    if isinstance(r_, ast.Name) and local_kind.get(r_.id) == 'perCallTyped' and '()' not in h_:
                        return 'perCallTyped'
                if isinstance(v, ast.Call):
                    f = v.func
                    fname = f.id if isinstance(f, ast.Name) else getattr(f, 'attr', '')
                    if fname in per_call:
                        return 'perCallTyped'
                    if fname in FRESH_CALLS:
                        return 'freshLocal'
                return 'unknown'

            own_nodes = []
            stack = list(fn.body)
            while stack:
                n = stack.pop()
                own_nodes.append(n)
                for c in ast.iter_child_nodes(n):
                    if not isinstance(c, (ast.FunctionDef, ast.AsyncFunctionDef)):
                        stack.append(c)
            for n in own_nodes:
                if isinstance(n, ast.Assign) and len(n.targets) == 1 and isinstance(n.targets[0], ast.Name):
                    k = value_kind(n.value)
                    nm = n.targets[0].id
                    # every binding of the name must be fresh for the name to count as fresh
                    local_kind[nm] = k if local_kind.get(nm, k) == k else 'unknown'
                elif isinstance(n, ast.AnnAssign) and isinstance(n.target, ast.Name):
                    k = 'perCallTyped' if ann_classes(n.annotation) & per_call else \
                        (value_kind(n.value) if n.value is not None else 'unknown')
                    nm = n.target.id
                    local_kind[nm] = k if local_kind.get(nm, k) == k else 'unknown'
            # names bound in other ways (for / with / walrus / except) are unknown
            for n in own_nodes:
                if isinstance(n, ast.Name) and isinstance(n.ctx, ast.Store) and n.id not in local_kind:
                    local_kind[n.id] = 'unknown'
            # comment-style annotations `x = []  # type: list[_Selector]` are not needed: displays are fresh

            def record(kind, target, lineno):
                """`target` is the expression being stored to / deleted / whose method mutates."""
                root, hops = root_and_hops(target)
                text = ast.unparse(target)
                if isinstance(root, ast.Name) and root.id == 'super' and hops[:1] == ['()']:
                    # super().__setattr__(...) / super().x = ...: the object is `self`
                    root_name, is_super = 'self', True
                    hops = hops[1:]
                elif isinstance(root, ast.Name):
                    root_name, is_super = root.id, False
                else:
                    shared.append((mod.name, cname, qual, text, '?', lineno, kind, 'unknown'))
                    return
                attr = next((h[1:] for h in hops if h.startswith('.')), '')
                in_init = fn.name in ('__init__', '__new__') and outer_fn is None
                # ---- tree writes (css_match.py)
                if mod.short == 'css_match':
                    attr_hops = [h[1:] for h in hops if h.startswith('.')]
                    touches = (root_name in BS4_NAMES and root_name not in ('self', 'cls')
                               and local_kind.get(root_name) != 'freshLocal') or \
                              any(a in BS4_ATTRS for a in attr_hops) or \
                              (root_name == 'self' and len(attr_hops) >= (3 if kind == 'call' else 2))
                    if touches:
                        fresh = (root_name == 'self' and in_init and kind in ('store', 'aug') and len(hops) == 1)
                        tree.append((cname, qual, text, attr, lineno, kind, fresh))
                # ---- who owns the receiver
                if root_name == 'self' and cname:
                    if in_init:
                        life = 'underConstruction'
                    else:
                        life = class_lifetime(cname)
                    if is_super and not in_init:
                        life = 'unknown'
                    shared.append((mod.name, cname, qual, text, attr, lineno, kind, life))
                elif root_name == 'cls' and cname:
                    shared.append((mod.name, cname, qual, text, attr, lineno, kind, 'shared'))
                elif root_name in local_kind and root_name not in global_names:
                    local.append((mod.name, cname, qual, text, lineno, kind, local_kind[root_name]))
                elif root_name in mod.globals or root_name in global_names:
                    shared.append((mod.name, cname, qual, text, attr, lineno, kind, 'shared'))
                else:
                    # a name the translator cannot place (builtin? closure variable of an outer function?)
                    outer_local = outer_fn is not None and any(
                        isinstance(x, ast.Name) and x.id == root_name and isinstance(x.ctx, ast.Store)
                        for x in ast.walk(outer_fn))
                    if outer_local:
                        local.append((mod.name, cname, qual, text, lineno, kind, 'unknown'))
                    else:
                        shared.append((mod.name, cname, qual, text, attr, lineno, kind, 'unknown'))

            for n in own_nodes:
                if isinstance(n, ast.Assign):
                    for t in n.targets:
                        for x in ast.walk(t):
                            if isinstance(x, (ast.Attribute, ast.Subscript)) and isinstance(x.ctx, ast.Store):
                                record('store', x, n.lineno)
                            elif isinstance(x, ast.Name) and isinstance(x.ctx, ast.Store) and x.id in global_names:
                                shared.append((mod.name, cname, qual, x.id, x.id, n.lineno, 'global', 'shared'))
                elif isinstance(n, ast.AugAssign):
                    if isinstance(n.target, (ast.Attribute, ast.Subscript)):
                        record('aug', n.target, n.lineno)
                    elif isinstance(n.target, ast.Name) and n.target.id in global_names:
                        shared.append((mod.name, cname, qual, n.target.id, n.target.id, n.lineno, 'global', 'shared'))
                elif isinstance(n, ast.AnnAssign):
                    if n.value is not None and isinstance(n.target, (ast.Attribute, ast.Subscript)):
                        record('store', n.target, n.lineno)
                elif isinstance(n, ast.Delete):
                    for t in n.targets:
                        if isinstance(t, (ast.Attribute, ast.Subscript)):
                            record('del', t, n.lineno)
                elif isinstance(n, (ast.For, ast.AsyncFor)):
                    for x in ast.walk(n.target):
                        if isinstance(x, (ast.Attribute, ast.Subscript)):
                            record('store', x, n.lineno)
                elif isinstance(n, (ast.With, ast.AsyncWith)):
                    for it in n.items:
                        if it.optional_vars is not None:
                            for x in ast.walk(it.optional_vars):
                                if isinstance(x, (ast.Attribute, ast.Subscript)):
                                    record('store', x, n.lineno)
                elif isinstance(n, ast.NamedExpr):
                    pass    # target is always a plain name
                elif isinstance(n, ast.Call):
                    f = n.func
                    if isinstance(f, ast.Attribute) and f.attr in MUTATORS:
                        record('call', f.value, n.lineno)
                    elif isinstance(f, ast.Name) and f.id in ('setattr', 'delattr') and n.args:
                        record('setattr', n.args[0], n.lineno)
                    elif isinstance(f, ast.Attribute) and f.attr == '__dict__':
                        record('call', f.value, n.lineno)
                if isinstance(n, ast.Attribute) and n.attr == '__dict__' and isinstance(n.ctx, ast.Load):
                    p = mod.parents.get(id(n))
                    if isinstance(p, ast.Subscript) and isinstance(p.ctx, (ast.Store, ast.Del)):
                        pass   # already recorded through the Subscript store

        # ---- debug guards (css_parser.py)
        if mod.short == 'css_parser':
            def mentions_debug(e):
                return any(isinstance(x, ast.Attribute) and x.attr == 'debug' and isinstance(x.value, ast.Name)
                           and x.value.id == 'self' for x in ast.walk(e))

            def pure_test(e):
                return not any(isinstance(x, (ast.Call, ast.NamedExpr, ast.Await, ast.Yield, ast.YieldFrom))
                               for x in ast.walk(e))

            def only_prints(body):
                for st in body:
                    if isinstance(st, ast.Expr) and isinstance(st.value, ast.Call) and \
                            isinstance(st.value.func, ast.Name) and st.value.func.id == 'print':
                        # the arguments must not do anything either: no calls except formatting of values
                        bad = [x for a in st.value.args + [k.value for k in st.value.keywords] for x in ast.walk(a)
                               if isinstance(x, (ast.NamedExpr, ast.Await, ast.Yield, ast.YieldFrom)) or
                               (isinstance(x, ast.Call) and not (isinstance(x.func, ast.Attribute) and
                                                                x.func.attr in ('group', 'start', 'end', 'span')))]
                        if bad:
                            return False
                        continue
                    if isinstance(st, ast.If) and pure_test(st.test) and only_prints(st.body) and only_prints(st.orelse):
                        continue
                    if isinstance(st, ast.Pass):
                        continue
                    return False
                return True

            guard_tests = set()
            for n in ast.walk(mod.tree):
                if isinstance(n, ast.If) and mentions_debug(n.test):
                    exact = isinstance(n.test, ast.Attribute) and n.test.attr == 'debug'
                    fn = mod.enclosing(n, (ast.FunctionDef, ast.AsyncFunctionDef))
                    guards.append((fn.name if fn else '', n.lineno, exact and only_prints(n.body) and not n.orelse,
                                   ast.unparse(n.test)))
                    for x in ast.walk(n.test):
                        guard_tests.add(id(x))
            for n in ast.walk(mod.tree):
                if isinstance(n, ast.Attribute) and n.attr == 'debug' and isinstance(n.value, ast.Name) \
                        and n.value.id == 'self' and isinstance(n.ctx, ast.Load) and id(n) not in guard_tests:
                    debug_reads.append(n.lineno)

    order = {('soupsieve' if f == '__init__' else 'soupsieve.' + f): k for k, f in enumerate(FILES)}
    shared.sort(key=lambda r: (order[r[0]], r[5], r[3]))
    local.sort(key=lambda r: (order[r[0]], r[4], r[3]))
    tree.sort(key=lambda r: (r[4], r[2]))
    guards.sort(key=lambda r: r[1])
    debug_reads.sort()
    temporaries.sort(key=lambda r: (order[r[0]], r[3]))
    return dict(shared=shared, local=local, tree=tree, caches=caches, guards=guards, debug_reads=debug_reads,
                stored=sorted(all_stored), per_call=per_call_declared, temporaries=temporaries,
                setters=interpreter_setters(mods))


# Calls that change interpreter-wide (process-wide) settings: not stores to an object of the library, so invisible to the
# write analysis above, yet shared by every thread.  Any call whose dotted name ends in one of these (whatever alias the
# module was imported under) is reported, and so is every `from <module> import <setter>`, every store into `os.environ` /
# `sys.modules` / `sys.path` and every `global`-free assignment to an attribute of `sys`, `builtins`, `warnings`, `locale`.
SETTER_CALLS = {
    'sys': {'setrecursionlimit', 'setswitchinterval', 'set_int_max_str_digits', 'settrace', 'setprofile', 'setdlopenflags',
            'set_asyncgen_hooks', 'set_coroutine_origin_tracking_depth', 'setcheckinterval', 'addaudithook'},
    'threading': {'settrace', 'setprofile', 'stack_size', 'settrace_all_threads', 'setprofile_all_threads'},
    'warnings': {'simplefilter', 'filterwarnings', 'resetwarnings', 'catch_warnings'},
    'locale': {'setlocale'},
    're': {'purge'},
    'os': {'chdir', 'putenv', 'unsetenv', 'umask', 'setuid', 'setgid', 'nice'},
    'signal': {'signal', 'setitimer', 'alarm', 'siginterrupt', 'set_wakeup_fd'},
    'random': {'seed', 'setstate'},
    'gc': {'disable', 'enable', 'set_threshold', 'set_debug', 'freeze'},
    'time': {'tzset'},
    'importlib': {'reload', 'invalidate_caches'},
    'resource': {'setrlimit'},
    'faulthandler': {'enable', 'disable'},
    'atexit': {'register', 'unregister'},
    'logging': {'basicConfig', 'disable', 'setLoggerClass', 'captureWarnings'},
    'decimal': {'setcontext'},
    'socket': {'setdefaulttimeout'},
    'multiprocessing': {'set_start_method'},
}
SHARED_CONTAINERS = {('os', 'environ'), ('sys', 'modules'), ('sys', 'path'), ('sys', 'meta_path'), ('sys', 'path_hooks'),
                     ('sys', 'argv'), ('warnings', 'filters')}
SETTING_MODULES = {'sys', 'builtins', 'warnings', 'locale', 'os', 'threading', 'gc', 're'}


def interpreter_setters(mods):
    out = []
    for mod in mods:
        alias = {}          # local name -> real module name
        for n in ast.walk(mod.tree):
            if isinstance(n, ast.Import):
                for a in n.names:
                    alias[(a.asname or a.name).split('.')[0]] = a.name.split('.')[0]
            elif isinstance(n, ast.ImportFrom) and n.module:
                top = n.module.split('.')[0]
                for a in n.names:
                    if a.name in SETTER_CALLS.get(top, ()):
                        out.append((mod.name, f'from {n.module} import {a.name}', n.lineno))
                    if (top, a.name) in SHARED_CONTAINERS:
                        out.append((mod.name, f'from {n.module} import {a.name}', n.lineno))

        def dotted(e):
            parts = []
            while isinstance(e, ast.Attribute):
                parts.append(e.attr)
                e = e.value
            if isinstance(e, ast.Name):
                parts.append(alias.get(e.id, e.id))
                return parts[::-1]
            return None
        for n in ast.walk(mod.tree):
            if isinstance(n, ast.Call):
                d = dotted(n.func)
                if d and len(d) >= 2 and d[-1] in SETTER_CALLS.get(d[0], ()):
                    out.append((mod.name, '.'.join(d) + '()', n.lineno))
                # mutating method on a shared interpreter container: os.environ.update(...), sys.path.insert(...), sys.modules.pop(...)
                if d and len(d) >= 3 and (d[0], d[1]) in SHARED_CONTAINERS and d[-1] in MUTATORS:
                    out.append((mod.name, '.'.join(d) + '()', n.lineno))
            targets = []
            if isinstance(n, ast.Assign):
                targets = n.targets
            elif isinstance(n, (ast.AugAssign, ast.AnnAssign)):
                targets = [n.target]
            elif isinstance(n, ast.Delete):
                targets = n.targets
            for t in targets:
                for y in ast.walk(t):
                    if isinstance(y, ast.Subscript):
                        d = dotted(y.value)
                        if d and len(d) >= 2 and (d[0], d[1]) in SHARED_CONTAINERS:
                            out.append((mod.name, '.'.join(d) + '[...] store', n.lineno))
                    if isinstance(y, ast.Attribute) and isinstance(y.ctx, (ast.Store, ast.Del)):
                        d = dotted(y)
                        if d and len(d) == 2 and d[0] in SETTING_MODULES:
                            out.append((mod.name, '.'.join(d) + ' store', n.lineno))
    return sorted(set(out))


def render(d):
    L = [
        '/- GENERATED by gen/gen_effects.py from the source text (ast) of /repo/soupsieve/*.py. Do not edit. -/',
        'namespace SoupVerif.Gen.Effects',
        '',
        '/-- How long the object a store hits lives. `unknown` = the translator cannot tell (fails the theorems). -/',
        'inductive Lifetime where',
        '  | underConstruction | perCall | shared | unknown',
        '  deriving DecidableEq, Repr',
        '',
        '/-- What a local variable or parameter is bound to. -/',
        'inductive LocalKind where',
        '  | perCallTyped | freshLocal | unknown',
        '  deriving DecidableEq, Repr',
        '',
        '/-- Kind of statement: attribute / item assignment, augmented assignment, `del`, mutating method call,',
        '`setattr`/`delattr`, assignment to a `global` name. -/',
        'inductive StoreKind where',
        '  | store | aug | del | call | setattr | global',
        '  deriving DecidableEq, Repr',
        '',
        'structure SharedWrite where',
        '  modName : String',
        '  cls : String',
        '  function : String',
        '  receiver : String',
        '  attr : String',
        '  lineno : Nat',
        '  kind : StoreKind',
        '  lifetime : Lifetime',
        '  deriving DecidableEq, Repr',
        '',
        'structure LocalWrite where',
        '  modName : String',
        '  cls : String',
        '  function : String',
        '  receiver : String',
        '  lineno : Nat',
        '  kind : StoreKind',
        '  binding : LocalKind',
        '  deriving DecidableEq, Repr',
        '',
        'structure TreeWrite where',
        '  cls : String',
        '  function : String',
        '  receiver : String',
        '  attr : String',
        '  lineno : Nat',
        '  kind : StoreKind',
        '  freshObject : Bool',
        '  deriving DecidableEq, Repr',
        '',
        'structure Cache where',
        '  modName : String',
        '  cls : String',
        '  function : String',
        '  maxsize : Option Nat',
        '  params : List String',
        '  deriving DecidableEq, Repr',
        '',
        'structure DebugGuard where',
        '  function : String',
        '  lineno : Nat',
        '  onlyPrints : Bool',
        '  test : String',
        '  deriving DecidableEq, Repr',
        '',
    ]
    L.append('/-- Stores through `self`, `cls`, module-level names and `global` names, in every function of every file. -/')
    rows = [f'  {{ modName := {lean_str(m)}, cls := {lean_str(c)}, function := {lean_str(f)}, receiver := {lean_str(t)}, '
            f'attr := {lean_str(a)}, lineno := {ln}, kind := .{k}, lifetime := .{life} }}'
            for (m, c, f, t, a, ln, k, life) in d['shared']]
    L.append('def sharedWrites : List SharedWrite := [\n' + ',\n'.join(rows) + '\n]')
    L.append('')
    L.append('/-- Stores through local variables and parameters. -/')
    rows = [f'  {{ modName := {lean_str(m)}, cls := {lean_str(c)}, function := {lean_str(f)}, receiver := {lean_str(t)}, '
            f'lineno := {ln}, kind := .{k}, binding := .{lk} }}'
            for (m, c, f, t, ln, k, lk) in d['local']]
    L.append('def localWrites : List LocalWrite := [\n' + ',\n'.join(rows) + '\n]')
    L.append('')
    L.append('/-- css_match.py: stores that may change a Beautiful Soup object (receiver named like one, attribute of '
             'the bs4 tree structure, or an object two hops away from `self`). -/')
    rows = [f'  {{ cls := {lean_str(c)}, function := {lean_str(f)}, receiver := {lean_str(t)}, attr := {lean_str(a)}, '
            f'lineno := {ln}, kind := .{k}, freshObject := {"true" if fr else "false"} }}'
            for (c, f, t, a, ln, k, fr) in d['tree']]
    L.append('def treeWrites : List TreeWrite := [\n' + ',\n'.join(rows) + '\n]')
    L.append('')
    L.append('/-- Functions decorated with `lru_cache`. -/')
    rows = [f'  {{ modName := {lean_str(m)}, cls := {lean_str(c)}, function := {lean_str(f)}, '
            f'maxsize := {"none" if mx is None else "some " + str(mx)}, '
            f'params := [{", ".join(lean_str(p) for p in ps)}] }}' for (m, c, f, mx, ps) in d['caches']]
    L.append('def caches : List Cache := [\n' + ',\n'.join(rows) + '\n]')
    L.append('')
    L.append('/-- css_parser.py: every `if` whose test mentions `self.debug`. -/')
    rows = [f'  {{ function := {lean_str(f)}, lineno := {ln}, onlyPrints := {"true" if op else "false"}, '
            f'test := {lean_str(t)} }}' for (f, ln, op, t) in d['guards']]
    L.append('def debugGuarded : List DebugGuard := [\n' + ',\n'.join(rows) + '\n]')
    L.append('')
    L.append('/-- css_parser.py: line numbers of reads of `self.debug` outside those tests. -/')
    L.append('def debugReads : List Nat := [' + ', '.join(str(x) for x in d['debug_reads']) + ']')
    L.append('')
    L.append('/-- Classes with an instance (or the class object) stored in a module global or class attribute. -/')
    L.append('def storedClasses : List String := [' + ', '.join(lean_str(x) for x in d['stored']) + ']')
    L.append('')
    L.append('/-- The classes declared to live for one API call only, and whether the AST bears that out. -/')
    L.append('def perCallClasses : List (String × Bool) := [' +
             ', '.join(f'({lean_str(c)}, {"true" if ok else "false"})' for c, ok in d['per_call']) + ']')
    L.append('')
    L.append('/-- Module-level `C(...).m(...)`: the instance of `C` is a temporary (module, class, method, line). -/')
    L.append('def moduleLevelTemporaries : List (String × String × String × Nat) := [' +
             ', '.join(f'({lean_str(m)}, {lean_str(c)}, {lean_str(me)}, {ln})' for m, c, me, ln in d['temporaries']) + ']')
    L.append('')
    L.append('/-- Calls / stores that change interpreter-wide settings (recursion limit, switch interval, warnings filters, locale,')
    L.append('    signal handlers, `os.environ`, `sys.modules`, `sys.path`, the `re` cache, …): (module, what, line). -/')
    L.append('def interpreterSetters : List (String × String × Nat) := [' +
             ', '.join(f'({lean_str(m)}, {lean_str(w)}, {ln})' for m, w, ln in d['setters']) + ']')
    L.append('')
    L.append('end SoupVerif.Gen.Effects')
    return '\n'.join(L) + '\n'


def main(dest, repo=REPO):
    d = extract(repo)
    text = render(d)
    old = open(dest, encoding='utf-8').read() if os.path.exists(dest) else None
    if old != text:
        with open(dest, 'w', encoding='utf-8') as f:
            f.write(text)
    return dict(interpreterSetters=len(d['setters']), sharedWrites=len(d['shared']), localWrites=len(d['local']), treeWrites=len(d['tree']),
                caches=len(d['caches']), debugGuarded=len(d['guards']),
                notPerCall=[(m, c, f, ln) for (m, c, f, t, a, ln, k, life) in d['shared'] if life in ('shared', 'unknown')])


if __name__ == '__main__':
    print(main(sys.argv[1], *(sys.argv[2:3])))
