"""Regenerate lean/SoupVerif/Generated/PyLangWalk.lean from the SOURCE TEXT (ast) of
`CSSMatch.match_lang(self, el, langs)` in $SOUPVERIF_REPO/soupsieve/css_match.py.

The function must have this FRAME (checked; anything else raises `Unsupported`: the translator FAILS CLOSED, gen_all
reports FAILED and the pipeline treats the proof side as broken).  Names of locals are pattern variables (a rename does
not reach the output); comments, docstrings, annotations and blank lines are not in the ast.

    [docstring]
    M = False                                         } in any order, each exactly once, nothing else
    HN = self.supports_namespaces()                   }
    R = self.root                                     }
    P = <el>                                          }
    F = None                                          }
    L = None                                          }
    while F is None:
        HH = self.has_html_ns(P)
        for K, V in self.iter_attributes(P):
            AN, A = self.split_namespace(P, K)
            if <COND>:                                  <- translated: `langAttrTest`
                F = V
                break
        L = P
        P = self.get_parent(P, no_iframe=<NI>)          <- translated: `langNoIframe`
        if P is None:
            R = L
            P = L
            break
    <statements that do not assign M, HN, the parameters>     (II) cache, (III) meta scan: NOT translated here
    if F is not None:                                   <- translated: `langsTest`
        <flag block>
    return M

  <COND>, <NI>   expressions over: `None` / `True` / `False` / string constants, HN, HH, K, AN, A, `self.is_xml`,
                 `self.is_html`, module-level `str` constants of soupsieve.css_match that the function does not assign
                 (`NS_XML`; the VALUE is read from the live module), `not`, `and`, `or`, `a if c else b`, one `==` /
                 `!=` / `is None` / `is not None`, `util.lower(x)` (checked to be soupsieve.util.lower).
                 Over the dynamic values `PyMatchSel.PV` (Python truthiness; `err` where CPython raises).
  <flag block>   statements on the ONE Bool flag M:  `M = True|False`;  `if <b>: … [else: …]`;  `break` (last statement of
                 its block, inside a loop);  `for X in <langs | an enclosing loop variable>: <flag block>` (no `else`).
                 <b>: M, `not`, `and`, `or`, `self.extended_language_filter(X, F)` / `(X, cast(str, F))` with X a loop
                 variable (`cast` checked to be typing.cast).

Emitted (namespace `SoupVerif.Gen.PyLangWalk`):

  langAttrTest c hasNs hasHtmlNs k sp : PV   <COND> for the attribute with key `k` and `split_namespace` result `sp`
  langHasNs c : PV                            the value of HN
  langNoIframe c : PV                         <NI>
  langScan c e s : Option NVal                the `for K, V in self.iter_attributes(P)` loop from `F = s` (`none` = None)
  langScanAt c l s, langWalkCond s, langWalkBody c s, langWalkRun c fuel el
                                              the `while` loop over the locals `WalkSt` of Model/LangWalkDyn.lean (the
                                              five statements of the body as checked above), fuel-bounded
  langsTest filter found langs : Bool         `M = False … if F is not None: <flag block>  return M`
"""
import ast
import os
import sys

REPO = os.environ.get('SOUPVERIF_REPO', '/repo')
SRC = os.path.join(REPO, 'soupsieve', 'css_match.py')
CLASS = 'CSSMatch'
FUNC = 'match_lang'


class Unsupported(Exception):
    pass


def fail(node, why):
    text = ''
    if node is not None:
        try:
            text = ' '.join(ast.unparse(node).split())[:200]
        except Exception:
            text = repr(node)
    raise Unsupported(f'{FUNC}: {why} line {getattr(node, "lineno", "?")}: {text}')


def lean_s(text):
    return '[' + ', '.join(str(ord(ch)) for ch in text) + ']'


def strip_doc(body):
    if body and isinstance(body[0], ast.Expr) and isinstance(body[0].value, ast.Constant) \
            and isinstance(body[0].value.value, str):
        return body[1:]
    return body


def find_method(tree, name):
    found = [item for node in tree.body if isinstance(node, ast.ClassDef) and node.name == CLASS
             for item in node.body if isinstance(item, (ast.FunctionDef, ast.AsyncFunctionDef)) and item.name == name]
    if len(found) != 1:
        raise Unsupported(f'{CLASS}.{name}: expected exactly one definition, found {len(found)}')
    return found[0]


def is_name(e, name=None):
    return isinstance(e, ast.Name) and (name is None or e.id == name)


def is_none(e):
    return isinstance(e, ast.Constant) and e.value is None


class Translator:
    def __init__(self, fn, module):
        self.fn = fn
        self.m = module
        a = fn.args
        if not isinstance(fn, ast.FunctionDef) or fn.decorator_list or a.posonlyargs or a.kwonlyargs or a.vararg \
                or a.kwarg or a.defaults or a.kw_defaults or len(a.args) != 3:
            fail(fn, 'not a plain method with parameters (self, el, langs)')
        self.self_, self.el, self.langs = [x.arg for x in a.args]
        self.params = {self.self_, self.el, self.langs}
        if len(self.params) != 3:
            fail(fn, 'duplicate parameter names')
        self.assigned = {n.id for n in ast.walk(fn) if isinstance(n, ast.Name) and isinstance(n.ctx, (ast.Store, ast.Del))}
        if self.assigned & self.params:
            fail(fn, 'assignment to a parameter')
        for n in ast.walk(fn):
            if isinstance(n, (ast.Global, ast.Nonlocal, ast.Lambda, ast.FunctionDef, ast.AsyncFunctionDef, ast.ClassDef,
                              ast.NamedExpr, ast.ListComp, ast.SetComp, ast.DictComp, ast.GeneratorExp, ast.Await,
                              ast.Yield, ast.YieldFrom, ast.Try, ast.With, ast.Delete, ast.Match)) and n is not fn:
                fail(n, 'unsupported construct')

    def self_call(self, e, name, nargs=None):
        """`self.<name>(...)` without starred arguments; returns (args, keywords) or None."""
        if isinstance(e, ast.Call) and isinstance(e.func, ast.Attribute) and is_name(e.func.value, self.self_) \
                and e.func.attr == name and not any(isinstance(x, ast.Starred) for x in e.args) \
                and all(k.arg is not None for k in e.keywords) and (nargs is None or len(e.args) == nargs):
            return e.args, e.keywords
        return None

    def stores(self, node, name):
        return [n for n in ast.walk(node) if isinstance(n, ast.Name) and isinstance(n.ctx, ast.Store) and n.id == name]

    # ------------------------------------------------------------ expressions over PV
    def ex(self, e, env):
        if isinstance(e, ast.Constant):
            v = e.value
            if v is None:
                return '.none'
            if type(v) is bool:
                return f'(.bool {"true" if v else "false"})'
            if type(v) is str:
                return f'(.str {lean_s(v)})'
            fail(e, 'unsupported constant')
        if isinstance(e, ast.Name):
            if not isinstance(e.ctx, ast.Load):
                fail(e, 'unsupported use of a name')
            if e.id in env:
                return env[e.id]
            if e.id not in self.assigned and e.id not in self.params and type(getattr(self.m, e.id, None)) is str \
                    and e.id.isupper():
                return f'(.str {lean_s(getattr(self.m, e.id))})'
            fail(e, 'unsupported name')
        if isinstance(e, ast.Attribute):
            if is_name(e.value, self.self_) and e.attr in ('is_xml', 'is_html') and isinstance(e.ctx, ast.Load):
                return '(pyIsXml c)' if e.attr == 'is_xml' else '(pyIsHtml c)'
            fail(e, 'unsupported attribute access')
        if isinstance(e, ast.UnaryOp) and isinstance(e.op, ast.Not):
            return f'(pyNot {self.ex(e.operand, env)})'
        if isinstance(e, ast.BoolOp):
            op = 'pyAnd' if isinstance(e.op, ast.And) else 'pyOr'
            vals = [self.ex(v, env) for v in e.values]
            out = vals[-1]
            for v in reversed(vals[:-1]):
                out = f'({op} {v} {out})'
            return out
        if isinstance(e, ast.IfExp):
            return f'(PV.ite {self.ex(e.test, env)} {self.ex(e.body, env)} {self.ex(e.orelse, env)})'
        if isinstance(e, ast.Compare):
            if len(e.ops) != 1:
                fail(e, 'chained comparison')
            op, l, r = e.ops[0], e.left, e.comparators[0]
            if isinstance(op, (ast.Is, ast.IsNot)):
                if not is_none(r):
                    fail(e, '`is` with something other than None')
                return f'({"pyIsNone" if isinstance(op, ast.Is) else "pyIsNotNone"} {self.ex(l, env)})'
            if isinstance(op, (ast.Eq, ast.NotEq)):
                return f'({"pyEq" if isinstance(op, ast.Eq) else "pyNe"} {self.ex(l, env)} {self.ex(r, env)})'
            fail(e, 'unsupported comparison')
        if isinstance(e, ast.Call):
            f = e.func
            if isinstance(f, ast.Attribute) and is_name(f.value, 'util') and f.attr == 'lower' and not e.keywords \
                    and len(e.args) == 1 and not isinstance(e.args[0], ast.Starred):
                import types
                util = getattr(self.m, 'util', None)
                real = sys.modules.get(self.m.__package__ + '.util')
                if 'util' in self.assigned or 'util' in self.params or not isinstance(util, types.ModuleType) \
                        or util is not real:
                    fail(e, '`util.lower` is not soupsieve.util.lower')
                return f'(pyLower {self.ex(e.args[0], env)})'
            fail(e, 'unsupported call')
        fail(e, 'unsupported expression')

    # ------------------------------------------------------------ the prefix and the walk
    def walk(self, body):
        """Returns (index of the `while`, names, lean of COND, lean of NI)."""
        wi = [i for i, st in enumerate(body) if isinstance(st, ast.While)]
        if len(wi) != 1 or len([n for n in ast.walk(self.fn) if isinstance(n, ast.While)]) != 1:
            fail(self.fn, 'expected exactly one `while` loop, at the top level')
        wi = wi[0]
        wh = body[wi]
        if wh.orelse:
            fail(wh, '`while … else`')
        t = wh.test
        if not (isinstance(t, ast.Compare) and len(t.ops) == 1 and isinstance(t.ops[0], ast.Is) and is_name(t.left)
                and is_none(t.comparators[0])):
            fail(wh, 'the loop test is not `F is None`')
        F = t.left.id
        wb = list(wh.body)
        if len(wb) != 5:
            fail(wh, 'the loop body does not have the five statements of the frame')
        s_hh, s_for, s_last, s_par, s_if = wb
        # HH = self.has_html_ns(P)
        if not (isinstance(s_hh, ast.Assign) and len(s_hh.targets) == 1 and is_name(s_hh.targets[0])
                and self.self_call(s_hh.value, 'has_html_ns', 1) and not s_hh.value.keywords
                and is_name(s_hh.value.args[0])):
            fail(s_hh, 'expected `HH = self.has_html_ns(P)`')
        HH, P = s_hh.targets[0].id, s_hh.value.args[0].id
        # for K, V in self.iter_attributes(P):
        tg = s_for.target if isinstance(s_for, ast.For) else None
        if not (tg is not None and not s_for.orelse and isinstance(tg, ast.Tuple) and len(tg.elts) == 2
                and all(is_name(x) for x in tg.elts) and self.self_call(s_for.iter, 'iter_attributes', 1)
                and not s_for.iter.keywords and is_name(s_for.iter.args[0], P)):
            fail(s_for, 'expected `for K, V in self.iter_attributes(P):`')
        K, V = tg.elts[0].id, tg.elts[1].id
        if len(s_for.body) != 2:
            fail(s_for, 'the attribute loop does not have the two statements of the frame')
        s_sp, s_c = s_for.body
        tt = s_sp.targets[0] if isinstance(s_sp, ast.Assign) and len(s_sp.targets) == 1 else None
        if not (isinstance(tt, ast.Tuple) and len(tt.elts) == 2 and all(is_name(x) for x in tt.elts)
                and self.self_call(s_sp.value, 'split_namespace', 2) and not s_sp.value.keywords
                and is_name(s_sp.value.args[0], P) and is_name(s_sp.value.args[1], K)):
            fail(s_sp, 'expected `AN, A = self.split_namespace(P, K)`')
        AN, A = tt.elts[0].id, tt.elts[1].id
        if not (isinstance(s_c, ast.If) and not s_c.orelse and len(s_c.body) == 2
                and isinstance(s_c.body[0], ast.Assign) and len(s_c.body[0].targets) == 1
                and is_name(s_c.body[0].targets[0], F) and is_name(s_c.body[0].value, V)
                and isinstance(s_c.body[1], ast.Break)):
            fail(s_c, 'expected `if <COND>: F = V; break`')
        # L = P
        if not (isinstance(s_last, ast.Assign) and len(s_last.targets) == 1 and is_name(s_last.targets[0])
                and is_name(s_last.value, P)):
            fail(s_last, 'expected `L = P`')
        L = s_last.targets[0].id
        # P = self.get_parent(P, no_iframe=<NI>)
        gp = self.self_call(s_par.value, 'get_parent', 1) if isinstance(s_par, ast.Assign) else None
        if not (gp and len(s_par.targets) == 1 and is_name(s_par.targets[0], P) and is_name(gp[0][0], P)
                and len(gp[1]) == 1 and gp[1][0].arg == 'no_iframe'):
            fail(s_par, 'expected `P = self.get_parent(P, no_iframe=<NI>)`')
        NI = gp[1][0].value
        # if P is None: R = L; P = L; break
        it = s_if.test if isinstance(s_if, ast.If) else None
        ok = (it is not None and not s_if.orelse and isinstance(it, ast.Compare) and len(it.ops) == 1
              and isinstance(it.ops[0], ast.Is) and is_name(it.left, P) and is_none(it.comparators[0])
              and len(s_if.body) == 3 and isinstance(s_if.body[2], ast.Break)
              and all(isinstance(x, ast.Assign) and len(x.targets) == 1 and is_name(x.targets[0])
                      and is_name(x.value, L) for x in s_if.body[:2])
              and s_if.body[1].targets[0].id == P)
        if not ok:
            fail(s_if, 'expected `if P is None: R = L; P = L; break`')
        R = s_if.body[0].targets[0].id
        names = dict(F=F, HH=HH, P=P, K=K, V=V, AN=AN, A=A, L=L, R=R)
        if len(set(names.values())) != len(names) or set(names.values()) & self.params:
            fail(wh, 'the locals of the walk are not distinct')
        # the statements in front of the loop
        pre = {}
        for st in body[:wi]:
            if not (isinstance(st, ast.Assign) and len(st.targets) == 1 and is_name(st.targets[0])):
                fail(st, 'unsupported statement in front of the walk')
            if st.targets[0].id in pre:
                fail(st, 'assigned twice in front of the walk')
            pre[st.targets[0].id] = st.value
        hn = [n for n, v in pre.items() if self.self_call(v, 'supports_namespaces', 0) and not v.keywords]
        ms = [n for n, v in pre.items() if isinstance(v, ast.Constant) and v.value is False]
        if len(hn) != 1 or len(ms) != 1 or len(pre) != 6:
            fail(self.fn, 'the statements in front of the walk are not the six of the frame')
        HN, M = hn[0], ms[0]
        if not (F in pre and is_none(pre[F]) and L in pre and is_none(pre[L]) and P in pre and is_name(pre[P], self.el)
                and R in pre and isinstance(pre[R], ast.Attribute) and is_name(pre[R].value, self.self_)
                and pre[R].attr == 'root'):
            fail(self.fn, 'the statements in front of the walk are not the six of the frame')
        names.update(HN=HN, M=M)
        if len(set(names.values())) != len(names):
            fail(self.fn, 'the locals of the frame are not distinct')
        # single assignment of the locals the decision reads
        if len(self.stores(self.fn, HN)) != 1 or len(self.stores(self.fn, HH)) != 1 or len(self.stores(wh, AN)) != 1 \
                or len(self.stores(wh, A)) != 1 or len(self.stores(wh, K)) != 1 or len(self.stores(wh, V)) != 1:
            fail(self.fn, 'a local the attribute decision reads is assigned more than once')
        env = {HN: 'hasNs', HH: 'hasHtmlNs', K: 'k', AN: 'sp.1', A: 'sp.2'}
        cond = self.ex(s_c.test, env)
        ni = self.ex(NI, {})
        return wi, names, cond, ni

    # ------------------------------------------------------------ the final test: a flag block
    def bex(self, e, M, F, loopvars):
        if is_name(e, M):
            return 'm'
        if isinstance(e, ast.UnaryOp) and isinstance(e.op, ast.Not):
            return f'(!{self.bex(e.operand, M, F, loopvars)})'
        if isinstance(e, ast.BoolOp):
            op = ' && ' if isinstance(e.op, ast.And) else ' || '
            return '(' + op.join(self.bex(v, M, F, loopvars) for v in e.values) + ')'
        c = self.self_call(e, 'extended_language_filter', 2)
        if c and not c[1]:
            x, f = c[0]
            if isinstance(f, ast.Call) and is_name(f.func, 'cast') and not f.keywords and len(f.args) == 2 \
                    and is_name(f.args[0], 'str'):
                import typing
                if 'cast' in self.assigned or 'str' in self.assigned or getattr(self.m, 'cast', None) is not typing.cast:
                    fail(f, '`cast` is not typing.cast')
                f = f.args[1]
            if is_name(x) and x.id in loopvars and is_name(f, F):
                return f'filter {loopvars[x.id]} fv'
        fail(e, 'unsupported test in the final block')

    def blk(self, stmts, M, F, loopvars, in_loop, ind):
        pad = '  ' * ind
        if not stmts:
            return f'{pad}(m, false)'
        st, rest = stmts[0], stmts[1:]
        if isinstance(st, ast.Break):
            if rest or not in_loop:
                fail(st, '`break` that is not the last statement of a block inside a loop')
            return f'{pad}(m, true)'
        if isinstance(st, ast.Assign):
            if not (len(st.targets) == 1 and is_name(st.targets[0], M) and isinstance(st.value, ast.Constant)
                    and type(st.value.value) is bool):
                fail(st, 'the only assignment supported in the final block is `M = True|False`')
            return f'{pad}let m : Bool := {"true" if st.value.value else "false"}\n' \
                + self.blk(rest, M, F, loopvars, in_loop, ind)
        if isinstance(st, ast.If):
            a = self.blk(list(st.body) + rest, M, F, loopvars, in_loop, ind + 1)
            b = self.blk(list(st.orelse) + rest, M, F, loopvars, in_loop, ind + 1)
            return f'{pad}if {self.bex(st.test, M, F, loopvars)} then\n{a}\n{pad}else\n{b}'
        if isinstance(st, ast.For):
            if st.orelse or not is_name(st.target) or not is_name(st.iter):
                fail(st, 'expected `for X in <name>:` without `else`')
            x = st.target.id
            if x in loopvars or x in self.params or x in (M, F) or len(self.stores(self.fn, x)) != 1:
                fail(st, 'the loop variable is not a fresh single-assignment name')
            if st.iter.id == self.langs and not loopvars:
                it = 'langs'
            elif st.iter.id in loopvars:
                it = loopvars[st.iter.id]
            else:
                fail(st, 'the loop does not run over `langs` / an enclosing loop variable')
            lv = dict(loopvars)
            lv[x] = f'x{len(loopvars)}'
            inner = self.blk(list(st.body), M, F, lv, True, ind + 2)
            return (f'{pad}let m : Bool := forBreak (fun (m : Bool) {lv[x]} =>\n{inner}\n{pad}  ) m {it}\n'
                    + self.blk(rest, M, F, loopvars, in_loop, ind))
        fail(st, 'unsupported statement in the final block')

    def final(self, body, wi, names):
        M, F, HN = names['M'], names['F'], names['HN']
        if len(body) < wi + 3:
            fail(self.fn, 'no final test after the walk')
        ret, fin = body[-1], body[-2]
        if not (isinstance(ret, ast.Return) and is_name(ret.value, M)):
            fail(ret, 'the last statement is not `return M`')
        if len([n for n in ast.walk(self.fn) if isinstance(n, ast.Return)]) != 1:
            fail(self.fn, 'more than one `return`')
        t = fin.test if isinstance(fin, ast.If) else None
        if not (t is not None and not fin.orelse and isinstance(t, ast.Compare) and len(t.ops) == 1
                and isinstance(t.ops[0], ast.IsNot) and is_name(t.left, F) and is_none(t.comparators[0])):
            fail(fin, 'the statement in front of `return M` is not `if F is not None:`')
        for st in body[wi:-2]:
            if self.stores(st, M):
                fail(st, 'the flag is assigned between its initialisation and the final test')
        if self.stores(fin, F):
            fail(fin, 'the final block assigns the language')
        return self.blk(list(fin.body), M, F, {}, False, 2)

    def function(self):
        body = strip_doc(list(self.fn.body))
        wi, names, cond, ni = self.walk(body)
        fin = self.final(body, wi, names)
        return cond, ni, fin


def translate(src_path=SRC):
    with open(src_path, encoding='utf-8') as f:
        text = f.read()
    tree = ast.parse(text)
    fn = find_method(tree, FUNC)
    from soupsieve import css_match as cm
    if not os.path.samefile(cm.__file__, src_path):
        raise Unsupported(f'the imported soupsieve.css_match ({cm.__file__}) is not {src_path}')
    cond, ni, fin = Translator(fn, cm).function()
    lines = [
        '/- GENERATED by gen/gen_py_langwalk.py from the source text of `CSSMatch.match_lang`',
        '   (soupsieve/css_match.py). Do not edit. -/',
        'import SoupVerif.Model.LangWalkDyn',
        'set_option linter.unusedVariables false',
        'namespace SoupVerif.Gen.PyLangWalk',
        'open SoupVerif SoupVerif.PyMatchSel SoupVerif.PyAttrName SoupVerif.PyLangWalk SoupVerif.PyFlagLoop',
        '',
        '/-- the test of the attribute loop of the walk: does the attribute with key `k` and `split_namespace` result `sp`',
        '    supply the language (`hasNs` / `hasHtmlNs` = the locals holding `self.supports_namespaces()` /',
        '    `self.has_html_ns(parent)`) -/',
        'def langAttrTest (c : Ctx) (hasNs hasHtmlNs k : PV) (sp : PV × PV) : PV :=',
        f'  {cond}',
        '',
        '/-- the local the walk reads for namespace support -/',
        'def langHasNs (c : Ctx) : PV := pySupportsNs c',
        '',
        '/-- the `no_iframe=` argument of the step `parent = self.get_parent(parent, no_iframe=…)` -/',
        'def langNoIframe (c : Ctx) : PV := ' + ni,
        '',
        '/-- `for k, v in self.iter_attributes(parent): … if <test>: found_lang = v; break` from `found_lang = s`',
        '    (`none` = `None`; a test that raises is excluded by `C13GenWalk.langAttrTest_eq`: it never does) -/',
        'def langScan (c : Ctx) (e : Elem) (s : Option NVal) : Option NVal :=',
        '  forBreak (fun (s : Option NVal) (x : Attr) =>',
        '      if (langAttrTest c (langHasNs c) (pyHasHtmlNs e) (pyKey x) (pySplitNamespace x)).truthy then',
        '        (some (normalizeValue x.val), true)',
        '      else',
        '        (s, false)',
        '    ) s (pyIterAttributes e)',
        '',
        '/-- the attribute loop on the node at a location (a node that is not an element has no attributes) -/',
        'def langScanAt (c : Ctx) (l : Loc) (s : Option NVal) : Option NVal :=',
        '  match l.elem? with',
        '  | some e => langScan c e s',
        '  | none => s',
        '',
        '/-- the test of the walk: `while found_lang is None` -/',
        'def langWalkCond (s : WalkSt) : Bool := s.found.isNone',
        '',
        '/-- one run of the body of the walk (frame checked by the translator): the attribute loop, `last = parent`,',
        '    `parent = self.get_parent(parent, no_iframe=…)`, `if parent is None: root = last; parent = last; break`;',
        '    the second component says `break` -/',
        'def langWalkBody (c : Ctx) (s : WalkSt) : WalkSt × Bool :=',
        '  let found := langScanAt c s.parent s.found',
        '  let last := some s.parent',
        '  match pyGetParent c s.parent (langNoIframe c) with',
        '  | none => ({ found := found, parent := s.parent, last := last, root := last }, true)',
        '  | some p => ({ found := found, parent := p, last := last, root := s.root }, false)',
        '',
        '/-- the walk from `parent = el`, `found_lang = None`, `last = None`, `root = self.root` (`none` = out of fuel) -/',
        'def langWalkRun (c : Ctx) (fuel : Nat) (el : Loc) : Option WalkSt :=',
        '  whileBreak langWalkCond (langWalkBody c) fuel { found := none, parent := el, last := none, root := c.root }',
        '',
        '/-- the flag: `match = False` … `if found_lang is not None: <block>` `return match`; `found` = `found_lang`',
        '    (`none` = `None`), `filter p t` = `self.extended_language_filter(p, t)`, `langs` = the items of each',
        '    `SelectorLang` of `langs` in iteration order -/',
        'def langsTest {τ : Type} (filter : Str → τ → Bool) (found : Option τ) (langs : List (List Str)) : Bool :=',
        '  let m : Bool := false',
        '  match found with',
        '  | none => m',
        '  | some fv => (',
        fin,
        '    ).1',
        '',
        'end SoupVerif.Gen.PyLangWalk',
    ]
    return '\n'.join(lines) + '\n'


def main(dest):
    text = translate()
    old = open(dest).read() if os.path.exists(dest) else None
    if old != text:
        with open(dest, 'w') as f:
            f.write(text)
    return 'attribute decision, attribute loop, walk, final test'


if __name__ == '__main__':
    print(main(sys.argv[1]))
