"""Regenerate lean/SoupVerif/Generated/Imports.lean from the *source text* (ast) of the modules of
/repo/soupsieve and of the installed bs4 package that are reachable through import statements.

For every module the translator emits the ORDERED list of events its body performs at import time:

  importMod M            `import M` / the module part of `from M import ...` (relative names resolved)
  fromImport M n         `from M import n`: `n` must already be an attribute of M, unless M.n is a
                         submodule (then it is imported)
  useAttr M n viaCall    import-time evaluation of `alias.n` where `alias` is bound to the bs4/soupsieve
                         module M: class bases, decorators, default values, module-level and class-level
                         expressions (viaCall = false); and -- over-approximation -- every such use found
                         inside the body of a function that may run at import time because module-level
                         code calls it directly or indirectly (viaCall = true), emitted at the position of
                         the module-level call.  "May run" is a name-based call graph (rapid type analysis):
                         a reference to a function is a call; a reference to a class instantiates it and
                         makes its dunder methods callable; `x.m` may call method `m` of every class that
                         may have been instantiated (and its base classes); a call whose callee cannot be
                         named (a parameter, a subscript, a call result) may call every function whose
                         name is mentioned anywhere outside callee position.
  define n               top-level def / class / assignment target / import binding
  unknown what           something the translator does not understand: the model turns it into an error,
                         so every theorem about an entry point that reaches it becomes false (fail closed)

Not executed at import time and therefore left out: function and lambda bodies (except through viaCall),
`if TYPE_CHECKING:` blocks, `if __name__ == "__main__":` blocks, `except` handler bodies (they only run
after a failure, and a failure already is an error in the model), annotations of modules that start with
`from __future__ import annotations`.

Modules outside the packages `bs4` and `soupsieve` are opaque and always importable.
"""
import ast
import builtins
import importlib.util
import os
import sys

REPO = os.environ.get('SOUPVERIF_REPO', '/repo')
MODULE_DUNDERS = {'__name__', '__doc__', '__file__', '__path__', '__package__', '__spec__', '__loader__',
                  '__dict__', '__builtins__', '__cached__'}
OUTPUT_CALLS = {'print', 'warnings.warn', 'warnings.warn_explicit', 'sys.stdout.write', 'sys.stderr.write',
                'sys.stdout.writelines', 'sys.stderr.writelines', 'input', 'breakpoint'}
BUILTIN_NAMES = set(dir(builtins))


def lean_str(s):
    out = []
    for ch in s:
        if ch == '\\':
            out.append('\\\\')
        elif ch == '"':
            out.append('\\"')
        elif ch == '\n':
            out.append('\\n')
        elif ord(ch) < 32 or ord(ch) > 126:
            out.append('\\u{%x}' % ord(ch))
        else:
            out.append(ch)
    return '"' + ''.join(out) + '"'


def package_roots(repo):
    roots = {'soupsieve': os.path.join(repo, 'soupsieve')}
    bs4_dir = os.environ.get('SOUPVERIF_BS4')
    if not bs4_dir:
        spec = importlib.util.find_spec('bs4')  # locating a top-level package does not execute it
        if spec is None or not spec.submodule_search_locations:
            raise RuntimeError('bs4 is not installed in this interpreter')
        bs4_dir = list(spec.submodule_search_locations)[0]
    roots['bs4'] = bs4_dir
    for k, v in roots.items():
        if not os.path.isfile(os.path.join(v, '__init__.py')):
            raise RuntimeError(f'package {k}: no __init__.py under {v}')
    return roots


class Finder:
    def __init__(self, roots):
        self.roots = roots
        self.cache = {}

    def path_of(self, name):
        """(file, is_package) of a bs4/soupsieve module, or None (cached: the file system is asked once per name)."""
        if name not in self.cache:
            self.cache[name] = self._path_of(name)
        return self.cache[name]

    def _path_of(self, name):
        parts = name.split('.')
        if parts[0] not in self.roots:
            return None
        base = os.path.join(self.roots[parts[0]], *parts[1:])
        if os.path.isfile(os.path.join(base, '__init__.py')):
            return os.path.join(base, '__init__.py'), True
        if len(parts) > 1 and os.path.isfile(base + '.py'):
            return base + '.py', False
        return None

    def is_ours(self, name):
        return name.split('.')[0] in self.roots

    def exists(self, name):
        return self.path_of(name) is not None


def dotted(e):
    """`a.b.c` -> ['a','b','c'] for a pure Name/Attribute chain, else None."""
    parts = []
    while isinstance(e, ast.Attribute):
        parts.append(e.attr)
        e = e.value
    if isinstance(e, ast.Name):
        parts.append(e.id)
        return list(reversed(parts))
    return None


def apply_decorator(d):
    """`@d` applied to a definition is the call `d(<the definition>)`."""
    return ast.copy_location(ast.Call(func=d, args=[ast.copy_location(ast.Constant(value=None), d)], keywords=[]), d)


def static_test(test):
    """True / False when the `if` test is decided before run time, else None."""
    src = ast.unparse(test)
    if src in ('TYPE_CHECKING', 'typing.TYPE_CHECKING'):
        return False
    if src in ("__name__ == '__main__'", '__name__ == "__main__"'):
        return False
    names = {n.id for n in ast.walk(test) if isinstance(n, ast.Name)}
    if names == {'sys'} and 'sys.version_info' in src and not any(isinstance(n, ast.Call) for n in ast.walk(test)):
        try:
            return bool(eval(compile(ast.Expression(test), '<test>', 'eval'), {'sys': sys, '__builtins__': {}}))
        except Exception:
            return None
    return None


NONCALLING = {'wraps', 'property', 'classmethod', 'staticmethod', 'lru_cache', 'cache', 'cached_property', 'pickle',
              'setter', 'getter', 'deleter', 'abstractmethod', 'overload', 'partial', 'update_wrapper', 'isinstance',
              'issubclass', 'getattr', 'hasattr', 'setattr', 'cast', 'id', 'type', 'repr', 'str', 'len', 'append',
              'add', 'extend', 'insert', 'register', 'format', 'join', 'get', 'setdefault', 'update', 'TypeVar'}


class Refs:
    """What a piece of code mentions: the raw material of the call graph and of the useAttr events.
    `called_*`: in callee position or passed as an argument to a call that may call it back;
    `taken_*`: mentioned elsewhere (stored, returned, passed to a function known not to call it)."""

    def __init__(self):
        self.called_names = set()
        self.arg_names = set()
        self.taken_names = set()
        self.called_attrs = set()      # `.m` on receivers of unknown type
        self.taken_attrs = set()
        self.self_called = set()       # `self.m` / `cls.m` / `super().m`
        self.self_taken = set()
        self.ctor_calls = []           # (dotted X, m) for `X(...).m(...)`
        self.cls = None                # (qualname of the enclosing class) for methods
        self.called_alias = set()      # (our module, attr) reached through a module alias
        self.taken_alias = set()
        self.call_results = []         # dotted X for `X(...)(...)`
        self.uses = []                 # (our module, attr, lineno): evaluated for sure, in source order
        self.lambda_uses = []          # same, inside a lambda body (evaluated only if the lambda is called)
        self.exotic = False            # a call whose callee is neither a name, an attribute nor a call result
        self.has_call = False
        self.subclass_bases = []       # dotted base-class expressions of a class statement
        self.local_fns = {}            # nested function name -> qualname (visible in this code)
        self.returns = []              # names returned (for functions)

    def merge(self, o):
        self.called_names |= o.called_names
        self.arg_names |= o.arg_names
        self.taken_names |= o.taken_names
        self.called_attrs |= o.called_attrs
        self.taken_attrs |= o.taken_attrs
        self.self_called |= o.self_called
        self.self_taken |= o.self_taken
        self.ctor_calls += o.ctor_calls
        self.called_alias |= o.called_alias
        self.taken_alias |= o.taken_alias
        self.call_results += o.call_results
        self.uses += o.uses
        self.lambda_uses += o.lambda_uses
        self.exotic |= o.exotic
        self.has_call |= o.has_call
        self.subclass_bases += o.subclass_bases


class ModuleInfo:
    def __init__(self, name, path, is_pkg, finder):
        self.name = name
        self.path = path
        self.is_pkg = is_pkg
        self.finder = finder
        self.tree = ast.parse(open(path, encoding='utf-8').read(), filename=path)
        self.future_annotations = any(
            isinstance(s, ast.ImportFrom) and s.module == '__future__' and any(a.name == 'annotations' for a in s.names)
            for s in self.tree.body)
        self.package = name if is_pkg else name.rpartition('.')[0]
        self.aliases = {}        # module-level name -> our module it is bound to
        self.from_names = {}     # module-level name -> (module, attribute) for `from M import attr`
        self.assign_alias = {}   # module-level `N = a.b.c` -> ['a','b','c']
        self.top_defs = {}       # name -> ast node (FunctionDef / ClassDef)
        self.events = []
        self.skipped = []
        self.funcs = {}          # qualname -> Refs of the body
        self.classes = {}        # qualname -> dict(methods={name: qualname}, bases=[dotted parts])
        self.collect_bindings()
        self.collect_functions()

    # ---- resolution -------------------------------------------------------------------------
    def resolve_from(self, node):
        if node.level == 0:
            return node.module
        base = self.package.split('.')
        if node.level > 1:
            base = base[:len(base) - (node.level - 1)]
        if not base or base == ['']:
            raise RuntimeError(f'{self.name}:{node.lineno}: relative import beyond top-level package')
        return '.'.join(base + ([node.module] if node.module else []))

    def collect_bindings(self):
        """Module-level aliases (flow-insensitive; any binding of a name to one of our modules counts)."""
        def visit(stmts):
            for st in stmts:
                if isinstance(st, ast.Import):
                    for al in st.names:
                        if al.asname:
                            self.aliases[al.asname] = al.name
                        else:
                            self.aliases[al.name.split('.')[0]] = al.name.split('.')[0]
                elif isinstance(st, ast.ImportFrom):
                    m = self.resolve_from(st)
                    for al in st.names:
                        if al.name == '*':
                            continue
                        bound = al.asname or al.name
                        if self.finder.exists(m + '.' + al.name):
                            self.aliases[bound] = m + '.' + al.name
                        else:
                            self.from_names[bound] = (m, al.name)
                elif isinstance(st, ast.If):
                    t = static_test(st.test)
                    if t is not False:
                        visit(st.body)
                    if t is not True:
                        visit(st.orelse)
                elif isinstance(st, ast.Try):
                    visit(st.body); visit(st.orelse); visit(st.finalbody)
                    for h in st.handlers:
                        visit(h.body)
                elif isinstance(st, (ast.For, ast.While, ast.With)):
                    visit(st.body); visit(getattr(st, 'orelse', []))
                elif isinstance(st, (ast.FunctionDef, ast.AsyncFunctionDef, ast.ClassDef)):
                    self.top_defs[st.name] = st
                elif isinstance(st, ast.Assign) and len(st.targets) == 1 and isinstance(st.targets[0], ast.Name):
                    d = dotted(st.value)
                    if d:
                        self.assign_alias[st.targets[0].id] = d
        visit(self.tree.body)
        self.aliases = {k: v for k, v in self.aliases.items() if self.finder.is_ours(v)}

    # ---- what code mentions ---------------------------------------------------------------------
    def refs_of(self, nodes, aliases, now):
        """(Refs, nested function defs) of a list of AST nodes.  now=True: an import-time expression (the uses
        inside lambda bodies go to `lambda_uses`); now=False: a function body (nested defs are returned, their
        bodies are not part of this code, their headers are)."""
        r = Refs()
        nested = []
        todo = [(n, False) for n in reversed([n for n in nodes if n is not None])]
        called_ids = set()
        skip_ids = set()
        arg_ids = set()
        while todo:
            n, in_lambda = todo.pop()
            if isinstance(n, (ast.Import, ast.ImportFrom)):
                continue
            if isinstance(n, (ast.FunctionDef, ast.AsyncFunctionDef)) and not now:
                nested.append(n)
                todo.extend((h, in_lambda) for h in reversed(self.header_nodes(n)))
                if n.decorator_list:
                    r.has_call = True
                continue
            if isinstance(n, ast.Lambda):
                todo.extend((d, in_lambda) for d in n.args.defaults if d is not None)
                todo.extend((d, in_lambda) for d in n.args.kw_defaults if d is not None)
                todo.append((n.body, True))
                continue
            if isinstance(n, ast.Call):
                r.has_call = True
                f = n.func
                fd = dotted(f)
                if fd:
                    called_ids.add(id(f))
                    last = fd[-1]
                elif isinstance(f, ast.Call):
                    d = dotted(f.func)
                    if d:
                        r.call_results.append(d)
                        last = d[-1]
                    else:
                        r.exotic = True
                        last = None
                elif isinstance(f, ast.Attribute):
                    # method call on an arbitrary expression
                    last = f.attr
                    recv = f.value
                    if isinstance(recv, ast.Call) and dotted(recv.func) and dotted(recv.func) != ['super']:
                        # X(...).m(...): typed when X is one of our classes
                        r.ctor_calls.append((dotted(recv.func), f.attr))
                        skip_ids.add(id(f))
                    else:
                        called_ids.add(id(f))
                else:
                    r.exotic = True
                    last = None
                if last not in NONCALLING:
                    for a in list(n.args) + [k.value for k in n.keywords]:
                        if isinstance(a, (ast.Name, ast.Attribute)):
                            called_ids.add(id(a))
                            arg_ids.add(id(a))
            if isinstance(n, ast.Attribute) and isinstance(n.ctx, ast.Load):
                called = id(n) in called_ids
                d = dotted(n)
                if d and d[0] in aliases:
                    mod = aliases[d[0]]
                    rest = d[1:]
                    k = 0
                    while k < len(rest):
                        a = rest[k]
                        if a in MODULE_DUNDERS:
                            break
                        (r.lambda_uses if (in_lambda and now) else r.uses).append((mod, a, n.lineno))
                        if self.finder.exists(mod + '.' + a):
                            mod = mod + '.' + a
                            k += 1
                            continue
                        if k == len(rest) - 1:
                            (r.called_alias if called else r.taken_alias).add((mod, a))
                        else:
                            # alias.Class.method...: the class is mentioned, the rest are ordinary attributes
                            r.taken_alias.add((mod, a))
                            for b in rest[k + 1:-1]:
                                r.taken_attrs.add(b)
                            (r.called_attrs if called else r.taken_attrs).add(rest[-1])
                        break
                    continue
                v = n.value
                is_self = (isinstance(v, ast.Name) and v.id in ('self', 'cls')) or (
                    isinstance(v, ast.Call) and isinstance(v.func, ast.Name) and v.func.id == 'super')
                if id(n) in skip_ids:
                    pass
                elif is_self:
                    (r.self_called if called else r.self_taken).add(n.attr)
                else:
                    (r.called_attrs if called else r.taken_attrs).add(n.attr)
            elif isinstance(n, ast.Name) and isinstance(n.ctx, ast.Load):
                if id(n) in arg_ids:
                    r.arg_names.add(n.id)      # passed to a call that may call it back
                else:
                    (r.called_names if id(n) in called_ids else r.taken_names).add(n.id)
            todo.extend((c, in_lambda) for c in reversed(list(ast.iter_child_nodes(n))))
        return r, nested

    def header_nodes(self, fn):
        """Expressions of a def statement that are evaluated when the def statement runs."""
        a = fn.args
        nodes = [apply_decorator(d) for d in fn.decorator_list]
        nodes += list(a.defaults) + [k for k in a.kw_defaults if k is not None]
        if not self.future_annotations:
            for arg in a.posonlyargs + a.args + a.kwonlyargs + [a.vararg, a.kwarg]:
                if arg is not None and arg.annotation is not None and not isinstance(arg.annotation, ast.Constant):
                    nodes.append(arg.annotation)
            if fn.returns is not None and not isinstance(fn.returns, ast.Constant):
                nodes.append(fn.returns)
        return nodes

    def local_aliases(self, fn):
        """Module aliases visible inside a function: module-level ones minus shadowed names, plus the
        function's own imports.  Also returns those local import statements."""
        aliases = dict(self.aliases)
        shadow = set()
        for n in ast.walk(fn):
            if isinstance(n, ast.Name) and isinstance(n.ctx, ast.Store):
                shadow.add(n.id)
            elif isinstance(n, ast.arg):
                shadow.add(n.arg)
        for s in shadow:
            aliases.pop(s, None)
        local_imports = []
        for n in ast.walk(fn):
            if isinstance(n, ast.Import):
                for al in n.names:
                    if self.finder.is_ours(al.name):
                        aliases[al.asname or al.name.split('.')[0]] = al.name if al.asname else al.name.split('.')[0]
                        local_imports.append(('import', al.name, None, n.lineno))
            elif isinstance(n, ast.ImportFrom):
                m = self.resolve_from(n)
                if m and self.finder.is_ours(m):
                    for al in n.names:
                        if self.finder.exists(m + '.' + al.name):
                            aliases[al.asname or al.name] = m + '.' + al.name
                        local_imports.append(('from', m, al.name, n.lineno))
        return aliases, local_imports

    def collect_functions(self):
        """One Refs per function, method and nested function (`outer.<locals>.inner`)."""
        self.local_imports = []
        self.decorators = {}

        def add_fn(qual, fn, outer_locals, cls=None):
            aliases, li = self.local_aliases(fn)
            r, nested = self.refs_of(fn.body, aliases, now=False)
            r.cls = cls
            r.local_fns = dict(outer_locals)
            for nf in nested:
                r.local_fns[nf.name] = qual + '.<locals>.' + nf.name
            # names returned by this function itself (not by nested ones)
            stack = list(fn.body)
            while stack:
                n = stack.pop()
                if isinstance(n, (ast.FunctionDef, ast.AsyncFunctionDef, ast.Lambda, ast.ClassDef)):
                    continue
                if isinstance(n, ast.Return) and isinstance(n.value, ast.Name):
                    r.returns.append(n.value.id)
                stack.extend(ast.iter_child_nodes(n))
            self.funcs[qual] = r
            self.decorators[qual] = list(fn.decorator_list)
            for kind, m, a, ln in li:
                self.local_imports.append((qual, kind, m, a, ln))
            for nf in nested:
                add_fn(qual + '.<locals>.' + nf.name, nf, r.local_fns, cls)

        def add_class(qual, cls):
            methods = {}
            for st in cls.body:
                if isinstance(st, (ast.FunctionDef, ast.AsyncFunctionDef)):
                    methods[st.name] = qual + '.' + st.name
                    add_fn(qual + '.' + st.name, st, {}, qual)
                elif isinstance(st, ast.ClassDef):
                    add_class(qual + '.' + st.name, st)
            self.classes[qual] = dict(methods=methods, bases=[dotted(b) for b in cls.bases if dotted(b)],
                                      meta=[dotted(k.value) for k in cls.keywords if dotted(k.value)])

        def visit(stmts):
            for st in stmts:
                if isinstance(st, (ast.FunctionDef, ast.AsyncFunctionDef)):
                    add_fn(st.name, st, {})
                elif isinstance(st, ast.ClassDef):
                    add_class(st.name, st)
                elif isinstance(st, (ast.If, ast.Try, ast.For, ast.While, ast.With)):
                    for f in ('body', 'orelse', 'finalbody'):
                        visit(getattr(st, f, []))
                    for h in getattr(st, 'handlers', []):
                        visit(h.body)
        visit(self.tree.body)


class Extractor:
    def __init__(self, repo=REPO):
        self.finder = Finder(package_roots(repo))
        self.mods = {}
        self.order = []

    def load(self, name):
        if name in self.mods:
            return self.mods[name]
        p = self.finder.path_of(name)
        if p is None:
            raise RuntimeError(f'module {name} not found')
        if '.' in name:
            self.load(name.rpartition('.')[0])
        mi = ModuleInfo(name, p[0], p[1], self.finder)
        self.mods[name] = mi
        self.order.append(name)
        return mi

    # ---- module-level scan ----------------------------------------------------------------------
    def scan(self, mi):
        ev = mi.events
        finder = self.finder
        pending = []

        def expr(nodes, lineno, force_call=False):
            r, _ = mi.refs_of(nodes if isinstance(nodes, list) else [nodes], mi.aliases, now=True)
            for m, a, ln in r.uses:
                ev.append(('useAttr', m, a, False, ln))
            if r.has_call or force_call:
                ev.append(('call', r, lineno))

        def targets(t, in_class):
            if isinstance(t, ast.Name):
                if not in_class:
                    ev.append(('define', t.id))
            elif isinstance(t, (ast.Tuple, ast.List)):
                for x in t.elts:
                    targets(x, in_class)
            elif isinstance(t, ast.Starred):
                targets(t.value, in_class)
            elif isinstance(t, (ast.Attribute, ast.Subscript)):
                d = dotted(t) if isinstance(t, ast.Attribute) else None
                if d and d[0] in mi.aliases:
                    ev.append(('unknown', f'{mi.name}:{t.lineno}: store to attribute of module alias {".".join(d)}'))
                else:
                    expr(t.value, t.lineno)
                    if isinstance(t, ast.Subscript):
                        expr(t.slice, t.lineno)
            else:
                ev.append(('unknown', f'{mi.name}:{t.lineno}: assignment target {type(t).__name__}'))

        def do_import(st, in_class):
            for al in st.names:
                if finder.is_ours(al.name):
                    if not finder.exists(al.name):
                        ev.append(('unknown', f'{mi.name}:{st.lineno}: import of missing module {al.name}'))
                        continue
                    pending.append(al.name)
                    ev.append(('importMod', al.name))
                if not in_class:
                    ev.append(('define', al.asname or al.name.split('.')[0]))

        def do_from(st, in_class):
            m = mi.resolve_from(st)
            if m == '__future__':
                return
            ours = finder.is_ours(m)
            if ours:
                if not finder.exists(m):
                    ev.append(('unknown', f'{mi.name}:{st.lineno}: from-import of missing module {m}'))
                    return
                pending.append(m)
                ev.append(('importMod', m))
                # `from M import ...` makes importlib probe M (hasattr): a module-level __getattr__ of M runs
                probe = Refs()
                probe.called_alias.add((m, '__getattr__'))
                ev.append(('call', probe, st.lineno))
            for al in st.names:
                if al.name == '*':
                    if ours:
                        ev.append(('unknown', f'{mi.name}:{st.lineno}: from {m} import *'))
                    continue
                if ours:
                    if finder.exists(m + '.' + al.name):
                        pending.append(m + '.' + al.name)
                    ev.append(('fromImport', m, al.name))
                if not in_class:
                    ev.append(('define', al.asname or al.name))

        def stmts(body, in_class):
            for st in body:
                stmt(st, in_class)

        def stmt(st, in_class):
            if isinstance(st, (ast.FunctionDef, ast.AsyncFunctionDef)):
                # applying a decorator is a call
                expr(mi.header_nodes(st), st.lineno, force_call=bool(st.decorator_list))
                if not in_class:
                    ev.append(('define', st.name))
            elif isinstance(st, ast.ClassDef):
                # the base expressions are evaluated; creating the class calls the metaclass and the bases'
                # subclass hooks (not the bases' other methods); applying a decorator is a call
                rb, _ = mi.refs_of(list(st.bases), mi.aliases, now=True)
                for m, a, ln in rb.uses:
                    ev.append(('useAttr', m, a, False, ln))
                rd, _ = mi.refs_of([apply_decorator(d) for d in st.decorator_list] + [k.value for k in st.keywords],
                                   mi.aliases, now=True)
                for m, a, ln in rd.uses:
                    ev.append(('useAttr', m, a, False, ln))
                seed = Refs()
                seed.subclass_bases = [dotted(b) for b in st.bases if dotted(b)]
                if st.decorator_list or st.keywords:
                    seed.merge(rd)
                if rb.has_call:
                    seed.merge(rb)
                ev.append(('call', seed, st.lineno))
                stmts(st.body, True)
                if not in_class:
                    ev.append(('define', st.name))
            elif isinstance(st, ast.Import):
                do_import(st, in_class)
            elif isinstance(st, ast.ImportFrom):
                do_from(st, in_class)
            elif isinstance(st, ast.If):
                t = static_test(st.test)
                if t is True:
                    stmts(st.body, in_class)
                elif t is False:
                    mi.skipped.append(f'{st.lineno}: if {ast.unparse(st.test)} (statically false)')
                    stmts(st.orelse, in_class)
                else:
                    # undecided test: requirements of both branches; a branch that binds names or imports
                    # cannot be summarised
                    expr(st.test, st.lineno)
                    for branch in (st.body, st.orelse):
                        for s in branch:
                            if isinstance(s, (ast.Pass, ast.Raise)):
                                continue
                            if isinstance(s, ast.Expr):
                                expr(s.value, s.lineno)
                                continue
                            ev.append(('unknown', f'{mi.name}:{s.lineno}: {type(s).__name__} under undecided '
                                                  f'`if {ast.unparse(st.test)[:50]}`'))
            elif isinstance(st, ast.Try):
                stmts(st.body, in_class)
                stmts(st.orelse, in_class)
                stmts(st.finalbody, in_class)
                for h in st.handlers:
                    mi.skipped.append(f'{h.lineno}: except {ast.unparse(h.type) if h.type else ""} handler body '
                                      f'({len(h.body)} statements)')
            elif isinstance(st, ast.Assign):
                expr(st.value, st.lineno)
                for t in st.targets:
                    targets(t, in_class)
            elif isinstance(st, ast.AugAssign):
                expr(st.value, st.lineno)
                targets(st.target, in_class)
            elif isinstance(st, ast.AnnAssign):
                if not mi.future_annotations and not isinstance(st.annotation, ast.Constant):
                    expr(st.annotation, st.lineno)
                if st.value is not None:
                    expr(st.value, st.lineno)
                    targets(st.target, in_class)
            elif isinstance(st, ast.Expr):
                if isinstance(st.value, ast.Constant):
                    return
                expr(st.value, st.lineno)
            elif isinstance(st, (ast.For, ast.AsyncFor)):
                expr(st.iter, st.lineno)
                targets(st.target, in_class)
                stmts(st.body, in_class)
                stmts(st.orelse, in_class)
            elif isinstance(st, ast.While):
                expr(st.test, st.lineno)
                stmts(st.body, in_class)
                stmts(st.orelse, in_class)
            elif isinstance(st, (ast.With, ast.AsyncWith)):
                for it in st.items:
                    expr(it.context_expr, st.lineno)
                    if it.optional_vars is not None:
                        targets(it.optional_vars, in_class)
                stmts(st.body, in_class)
            elif isinstance(st, ast.Assert):
                expr(st.test, st.lineno)
            elif isinstance(st, ast.Pass):
                pass
            else:
                ev.append(('unknown', f'{mi.name}:{st.lineno}: top-level {type(st).__name__}'))

        stmts(mi.tree.body, False)
        return pending

    def run(self, roots):
        todo = list(roots)
        scanned = set()
        while todo:
            name = todo.pop(0)
            if name in scanned:
                continue
            parts = name.split('.')
            for i in range(1, len(parts)):
                anc = '.'.join(parts[:i])
                if anc not in scanned:
                    todo.insert(0, name)
                    name = anc
                    break
            if name in scanned:
                continue
            mi = self.load(name)
            scanned.add(name)
            todo.extend(self.scan(mi))
        self.expand_calls()

    # ---- call graph (rapid type analysis, name based) -------------------------------------------------
    def resolve(self, mod, parts, depth=0):
        """('fn', module, qualname) / ('class', module, qualname) / None for a dotted reference in `mod`."""
        if depth > 8 or mod not in self.mods:
            return None
        mi = self.mods[mod]
        head = parts[0]
        if head in mi.aliases:
            m = mi.aliases[head]
            rest = parts[1:]
            while rest and self.finder.exists(m + '.' + rest[0]):
                m = m + '.' + rest[0]
                rest = rest[1:]
            if not rest:
                return None
            return self.resolve(m, rest, depth + 1)
        if head in mi.top_defs:
            node = mi.top_defs[head]
            if isinstance(node, ast.ClassDef):
                if len(parts) == 1:
                    return ('class', mod, head)
                q = '.'.join(parts)
                if q in mi.classes:
                    return ('class', mod, q)
                m = mi.classes.get(head, {}).get('methods', {}).get(parts[1])
                # a method reached through its class: the class counts as referenced too
                return ('class+fn', mod, head, m) if m else ('class', mod, head)
            return ('fn', mod, head) if len(parts) == 1 else None
        if head in mi.from_names:
            m, a = mi.from_names[head]
            return self.resolve(m, [a] + parts[1:], depth + 1) if self.finder.is_ours(m) else None
        if head in mi.assign_alias and mi.assign_alias[head][0] != head:
            return self.resolve(mod, mi.assign_alias[head] + parts[1:], depth + 1)
        # a class nested in a class, mentioned by its short name inside the enclosing class body
        nested = [q for q in mi.classes if q.endswith('.' + head)]
        if len(parts) == 1 and nested:
            return ('class', mod, nested[0])
        return None

    def resolve_in(self, mn, r, parts):
        """Like resolve, but a bare name may be a nested function visible from the code `r`."""
        if len(parts) == 1 and parts[0] in r.local_fns:
            return ('fn', mn, r.local_fns[parts[0]])
        key = (mn, tuple(parts))
        if key not in self.resolve_cache:
            self.resolve_cache[key] = self.resolve(mn, parts)
        return self.resolve_cache[key]

    def opaque_name(self, mn, r, name):
        """A bare name that certainly does not denote one of our functions: builtin, opaque import, module alias."""
        mi = self.mods[mn]
        if name in r.local_fns or name in mi.top_defs or name in mi.assign_alias:
            return False
        if name in mi.from_names:
            return not self.finder.is_ours(mi.from_names[name][0])
        if name in mi.aliases:
            return True
        if mn not in self.opaque_imports:
            out = set()
            for n in ast.walk(mi.tree):
                if isinstance(n, ast.Import):
                    for al in n.names:
                        out.add(al.asname or al.name.split('.')[0])
            self.opaque_imports[mn] = out - set(mi.aliases)
        if name in self.opaque_imports[mn]:
            return True
        return name in BUILTIN_NAMES

    SUBCLASS_HOOKS = ('__init_subclass__', '__class_getitem__', '__mro_entries__', '__set_name__')

    def ancestors(self, mn, q):
        """The class (module, qualname) and every base class of it that is one of ours (cached)."""
        key = (mn, q)
        if key in self.anc_cache:
            return self.anc_cache[key]
        seen = []
        stack = [(mn, q)]
        while stack:
            c = stack.pop()
            if c in seen or c[1] not in self.mods[c[0]].classes:
                continue
            seen.append(c)
            info = self.mods[c[0]].classes[c[1]]
            for b in info['bases'] + info['meta']:
                t = self.resolve_in(c[0], self.no_refs, b)
                if t and t[0].startswith('class'):
                    stack.append((t[1], t[2]))
        self.anc_cache[key] = seen
        return seen

    def family(self, mn, q):
        """Ancestors and descendants of a class: where `self.m` of a method of that class may dispatch."""
        key = (mn, q)
        if key not in self.fam_cache:
            fam = list(self.ancestors(mn, q))
            for dm, mi in self.mods.items():
                for dq in mi.classes:
                    if (mn, q) in self.ancestors(dm, dq) and (dm, dq) not in fam:
                        fam.append((dm, dq))
            self.fam_cache[key] = fam
        return self.fam_cache[key]

    def method_in(self, classes, name):
        out = set()
        for (cm_, q) in classes:
            fq = self.mods[cm_].classes[q]['methods'].get(name)
            if fq:
                out.add((cm_, fq))
        return out

    def dunders(self, c):
        out = set()
        for (cm_, q) in self.ancestors(*c):
            for m, fq in self.mods[cm_].classes[q]['methods'].items():
                if m.startswith('__') and m.endswith('__'):
                    out.add((cm_, fq))
        return out

    def returned_fns(self, f):
        """Functions a function of ours may return by name."""
        mn, q = f
        r = self.mods[mn].funcs.get(q)
        out = set()
        if r is None:
            return out
        for n in r.returns:
            t = self.resolve_in(mn, r, [n])
            if t and t[0] == 'fn':
                out.add((t[1], t[2]))
        return out

    def wrappers_of(self, f):
        """What runs around a decorated function when it is called: the functions returned by our decorators
        (`@D` -> returns(D); `@D(...)` -> returns(returns(D)))."""
        if f in self.wrap_cache:
            return self.wrap_cache[f]
        mn, q = f
        out = set()
        for d in self.mods[mn].decorators.get(q, []):
            depth = 1
            e = d
            if isinstance(e, ast.Call):
                depth = 2
                e = e.func
            dd = dotted(e)
            if not dd:
                continue
            t = self.resolve_in(mn, self.no_refs, dd)
            if not t or t[0] != 'fn':
                continue
            level = {(t[1], t[2])}
            for _ in range(depth):
                nxt = set()
                for g_ in level:
                    nxt |= self.returned_fns(g_)
                level = nxt
            out |= level
        self.wrap_cache[f] = out
        return out

    def summary(self, mn, r):
        """What running the code `r` of module mn does, as far as names tell (cached per Refs object):
        direct   functions certainly named as callees (by name, through a module alias, Class.method, X(...).m,
                 self.m / cls.m / super().m within the class family, functions returned by called factories,
                 subclass hooks of base classes)
        inst     classes instantiated (their dunder methods are in `direct`)
        taken    functions mentioned but not called here;  tclasses  classes mentioned but not called here
        ucalled / utaken   attribute names called / loaded on receivers of unknown type
        exotic   a callee that cannot be named at all (parameter, local variable, subscript, ...)"""
        key = id(r)
        if key in self.sum_cache:
            return self.sum_cache[key]
        direct, inst, taken, tclasses = set(), set(), set(), set()
        exotic = r.exotic

        def add(t, is_call):
            if t is None:
                return
            if t[0] == 'fn':
                (direct if is_call else taken).add((t[1], t[2]))
            elif t[0] == 'class+fn' and t[3]:
                tclasses.add((t[1], t[2]))
                (direct if is_call else taken).add((t[1], t[3]))
            elif is_call:
                inst.add((t[1], t[2]))
            else:
                tclasses.add((t[1], t[2]))

        for n in r.called_names:
            t = self.resolve_in(mn, r, [n])
            add(t, True)
            if t is None and not self.opaque_name(mn, r, n):
                exotic = True
        for n in r.arg_names:
            t = self.resolve_in(mn, r, [n])
            # a function handed to a call may be called back; a class handed to a call is only mentioned
            add(t, bool(t) and t[0] != 'class')
        for n in r.taken_names:
            add(self.resolve_in(mn, r, [n]), False)
        for (m, a) in r.called_alias:
            add(self.resolve_in(m, self.no_refs, [a]), True)
        for (m, a) in r.taken_alias:
            add(self.resolve_in(m, self.no_refs, [a]), False)
        ucalled, utaken = set(r.called_attrs), set(r.taken_attrs)
        for d in r.call_results:
            t = self.resolve_in(mn, r, d)
            if t and t[0] == 'fn':
                direct |= self.returned_fns((t[1], t[2]))
            elif t:
                inst.add((t[1], t[2]))
                ucalled.add('__call__')
            elif not (self.opaque_name(mn, r, d[0]) or d[0] in ('self', 'cls')):
                exotic = True
        for d, m in r.ctor_calls:
            t = self.resolve_in(mn, r, d)
            if t and t[0] == 'class':
                inst.add((t[1], t[2]))
                direct |= self.method_in(self.ancestors(t[1], t[2]), m)
            else:
                if t and t[0] == 'fn':
                    direct.add((t[1], t[2]))
                elif t is None and not (self.opaque_name(mn, r, d[0]) or d[0] in ('self', 'cls')):
                    exotic = True
                ucalled.add(m)
        if r.cls is not None:
            fam = self.family(mn, r.cls)
            for a in r.self_called:
                hit = self.method_in(fam, a)
                direct |= hit
                if not hit:
                    ucalled.add(a)      # an attribute holding some object / callable
            for a in r.self_taken:
                for f in self.method_in(fam, a):
                    # a property (or otherwise decorated method) runs on attribute access
                    (direct if self.mods[f[0]].decorators.get(f[1]) else taken).add(f)
        else:
            ucalled |= r.self_called
            utaken |= r.self_taken
        for b in r.subclass_bases:
            t = self.resolve_in(mn, self.no_refs, b)
            if t and t[0].startswith('class'):
                for h in self.SUBCLASS_HOOKS:
                    direct |= self.method_in(self.ancestors(t[1], t[2]), h)
        for c in inst:
            direct |= self.dunders(c)
        res = (direct, inst, taken, tclasses, ucalled, utaken, exotic)
        self.sum_cache[key] = res
        return res

    def expand_calls(self):
        mods = self.mods
        self.opaque_imports, self.resolve_cache, self.anc_cache, self.fam_cache = {}, {}, {}, {}
        self.wrap_cache, self.sum_cache = {}, {}
        self.no_refs = Refs()
        by_name = {}      # method name -> [(class, function)]
        for mn, mi in mods.items():
            for q, c in mi.classes.items():
                for m, fq in c['methods'].items():
                    by_name.setdefault(m, []).append(((mn, q), (mn, fq)))

        seeds = [(mn, e[1], e[2]) for mn in self.order for e in mods[mn].events if e[0] == 'call']
        # functions / classes mentioned (not called) by module-level and class-level code anywhere: tables of
        # handlers and the like, callable later through an unnamed callee
        T_mod, TC_mod = {}, {}
        for mn, r, ln in seeds:
            _, _, taken, tclasses, _, _, _ = self.summary(mn, r)
            T_mod.setdefault(mn, set()).update(taken)
            TC_mod.setdefault(mn, set()).update(tclasses)

        I_glob = set()    # classes instantiated by import-time code of any statement (with their ancestors)

        def reach(mn, r):
            """Functions that may run while the import-time expression `r` of module mn is evaluated."""
            R, I, T, TC = set(), set(), set(), set()
            UC, UT = set(), set()
            exotic = False
            exotic_mods = set()     # modules whose code makes a call through an unnamed callee
            work = []

            def absorb(smn, sr):
                nonlocal exotic
                direct, inst, taken, tclasses, ucalled, utaken, ex_ = self.summary(smn, sr)
                for f in direct:
                    if f not in R:
                        R.add(f); work.append(f)
                for c in inst:
                    I.update(self.ancestors(*c))
                T.update(taken); TC.update(tclasses)
                UC.update(ucalled); UT.update(utaken)
                if ex_:
                    exotic = True
                    exotic_mods.add(smn)

            absorb(mn, r)
            while True:
                while work:
                    f = work.pop()
                    if f[1] in mods[f[0]].funcs:
                        absorb(f[0], mods[f[0]].funcs[f[1]])
                        for w in self.wrappers_of(f):
                            if w not in R:
                                R.add(w); work.append(w)
                # receivers of unknown type: any class that may have an instance by now
                live = I | I_glob
                if exotic:
                    # an unnamed callee may be anything mentioned (not called) by the code reached from this
                    # statement, or by the module-level code of the modules that make such calls
                    tc, tf = set(TC), set(T)
                    for m_ in exotic_mods:
                        tc |= TC_mod.get(m_, set())
                        tf |= T_mod.get(m_, set())
                    for c in tc - I:
                        I.update(self.ancestors(*c))
                        for f in self.dunders(c):
                            if f not in R:
                                R.add(f); work.append(f)
                    for f in tf:
                        if f not in R:
                            R.add(f); work.append(f)
                    live = I | I_glob
                for a in UC:
                    for c, f in by_name.get(a, ()):
                        if c in live and f not in R:
                            R.add(f); work.append(f)
                for a in UT:
                    for c, f in by_name.get(a, ()):
                        if c in live:
                            if mods[f[0]].decorators.get(f[1]):
                                if f not in R:
                                    R.add(f); work.append(f)
                            else:
                                T.add(f)
                if not work:
                    break
            return {f for f in R if f[1] in mods[f[0]].funcs}, I

        results = {}
        while True:
            size = len(I_glob)
            for k, (mn, r, ln) in enumerate(seeds):
                fs, inst = reach(mn, r)
                results[k] = fs
                I_glob |= inst
            if len(I_glob) == size:
                break
        R_all = set()
        for fs in results.values():
            R_all |= fs
        self.reachable_functions = sorted(R_all)
        self.instantiated = sorted(I_glob)

        self.called_into = {}
        k = 0
        for mn in self.order:
            mi = mods[mn]
            new = []
            emitted = set()
            for e in mi.events:
                if e[0] != 'call':
                    new.append(e)
                    continue
                fs = results[k]
                k += 1
                for (m, a, ln) in e[1].lambda_uses:
                    if (m, a) not in emitted:
                        emitted.add((m, a))
                        new.append(('useAttr', m, a, True, ln))
                for f in sorted(fs):
                    self.called_into.setdefault(f'{f[0]}:{f[1]}', f'{mn}:{e[2]}')
                    fr = mods[f[0]].funcs[f[1]]
                    for (m, a, ln) in fr.uses + fr.lambda_uses:
                        if (m, a) not in emitted:
                            emitted.add((m, a))
                            new.append(('useAttr', m, a, True, ln))
            mi.events = new


def output_calls(tree):
    """Names of calls to print / warnings.warn / sys.stdout.write / logging.* evaluated at import time
    (module level and class level, not inside function bodies)."""
    found = []

    def expr(e):
        todo = [e]
        while todo:
            n = todo.pop()
            if isinstance(n, ast.Lambda):
                continue
            if isinstance(n, ast.Call):
                d = dotted(n.func)
                if d:
                    s = '.'.join(d)
                    if s in OUTPUT_CALLS or d[-1] in ('warn', 'warn_explicit') or d[0] == 'logging':
                        found.append(f'{s}@{n.lineno}')
            todo.extend(ast.iter_child_nodes(n))

    def stmts(body):
        for st in body:
            if isinstance(st, (ast.FunctionDef, ast.AsyncFunctionDef)):
                for d in st.decorator_list:
                    expr(d)
                for d in list(st.args.defaults) + [k for k in st.args.kw_defaults if k is not None]:
                    expr(d)
            elif isinstance(st, ast.ClassDef):
                for d in st.decorator_list + st.bases:
                    expr(d)
                stmts(st.body)
            elif isinstance(st, ast.If):
                t = static_test(st.test)
                expr(st.test)
                if t is not False:
                    stmts(st.body)
                if t is not True:
                    stmts(st.orelse)
            elif isinstance(st, ast.Try):
                stmts(st.body); stmts(st.orelse); stmts(st.finalbody)
                for h in st.handlers:
                    stmts(h.body)
            elif isinstance(st, (ast.For, ast.While, ast.With, ast.AsyncFor, ast.AsyncWith)):
                for f in ('iter', 'test'):
                    if hasattr(st, f):
                        expr(getattr(st, f))
                for it in getattr(st, 'items', []):
                    expr(it.context_expr)
                stmts(st.body); stmts(getattr(st, 'orelse', []))
            else:
                expr(st)
    stmts(tree.body)
    return found


def dunder_all(tree):
    for st in tree.body:
        if isinstance(st, ast.Assign) and any(isinstance(t, ast.Name) and t.id == '__all__' for t in st.targets):
            try:
                v = ast.literal_eval(st.value)
            except Exception:
                return None
            if all(isinstance(x, str) for x in v):
                return list(v)
            return None
    return None


ENTRY_ROOTS = ['bs4', 'bs4.element', 'soupsieve', 'soupsieve.__meta__', 'soupsieve.util', 'soupsieve.pretty',
               'soupsieve.css_types', 'soupsieve.css_match', 'soupsieve.css_parser']


def extract(repo=REPO):
    ex = Extractor(repo)
    ex.run(ENTRY_ROOTS)
    return ex


ENTRY_NAMES = [('bs4', 'bs4'), ('bs4Element', 'bs4.element'), ('soupsieve', 'soupsieve'),
               ('cssMatch', 'soupsieve.css_match'), ('cssParser', 'soupsieve.css_parser'),
               ('cssTypes', 'soupsieve.css_types'), ('beautifulSoup', 'BeautifulSoup')]


def render(ex):
    """Names are interned: id k < #modules is the k-th module of the graph, the other ids are attribute names in
    order of first occurrence. `names` gives the string of every id."""
    ids = {}
    table = []

    def intern(sname):
        if sname not in ids:
            ids[sname] = len(table)
            table.append(sname)
        return ids[sname]

    for name in ex.order:
        intern(name)
    all_ = dunder_all(ex.mods['soupsieve'].tree)
    if all_ is None:
        all_ = ['<__all__ is not a literal sequence of strings>']
    for _, sname in ENTRY_NAMES:
        intern(sname)
    for x in all_:
        intern(x)

    L = [
        '/- GENERATED by gen/gen_imports.py from the source text (ast) of /repo/soupsieve/*.py and of the bs4',
        '   modules reachable through import statements. Do not edit.',
        '   Names are numbers: `names[k]` is the text of name k; k < graph.length is the k-th module. -/',
        'import SoupVerif.Model.Imports',
        'namespace SoupVerif.Gen.Imports',
        'open SoupVerif.Imports',
        'set_option maxRecDepth 100000',
        '',
    ]
    blocks = []
    for name in ex.order:
        mi = ex.mods[name]
        ident = 'ev_' + name.replace('.', '_')
        rows = []
        for e in mi.events:
            if e[0] == 'importMod':
                rows.append((f'.importMod {intern(e[1])}', f'import {e[1]}'))
            elif e[0] == 'fromImport':
                rows.append((f'.fromImport {intern(e[1])} {intern(e[2])}', f'from {e[1]} import {e[2]}'))
            elif e[0] == 'useAttr':
                rows.append((f'.useAttr {intern(e[1])} {intern(e[2])} {"true" if e[3] else "false"}',
                             f'{e[1]}.{e[2]}' + (f'   (in a function that may run at import time, line {e[4]})'
                                                if e[3] else f'   (line {e[4]})')))
            elif e[0] == 'define':
                rows.append((f'.define {intern(e[1])}', f'{e[1]} = ...'))
            elif e[0] == 'unknown':
                rows.append((f'.unknown {lean_str(e[1])}', 'NOT TRANSLATED'))
            else:
                raise RuntimeError(f'unexpanded event {e!r}')
        blk = [f'/-- `{name}` ({os.path.basename(os.path.dirname(mi.path))}/{os.path.basename(mi.path)}); '
               f'postponed annotations: {mi.future_annotations}. -/',
               f'def {ident} : List Event := [']
        for k, (term, comment) in enumerate(rows):
            sep = ',' if k + 1 < len(rows) else ''
            blk.append(f'  {term}{sep}  -- {comment}')
        blk.append(']')
        blk.append('')
        blocks.append((name, ident, blk))
    for _, _, blk in blocks:
        L += blk
    L.append('/-- Every bs4 / soupsieve module reachable through import statements, parents before children; the '
             'k-th node is module k. `parent` is the id of the parent package (`none` for a top-level package), '
             '`leaf` the id of the last component of the dotted name. -/')
    items = []
    for name, ident, _ in blocks:
        parent, _, leaf = name.rpartition('.')
        p = f'some {ids[parent]}' if parent else 'none'
        items.append(f'  {{ name := {ids[name]}, parent := {p}, leaf := {intern(leaf)}, events := {ident} }}'
                     f'{"," if name != blocks[-1][0] else ""}  -- {name}')
    L.append('def graph : Graph := [\n' + '\n'.join(items) + '\n]')
    L.append('')
    L.append('/-- Ids of the names the entry points mention, and `soupsieve.__all__` (what `from soupsieve import *` '
             'fetches; an unreadable `__all__` is emitted as a name that is never defined). -/')
    fields = ', '.join(f'{f} := {ids[sname]}' for f, sname in ENTRY_NAMES)
    L.append(f'def entryIds : EntryIds :=\n  {{ {fields}, all := [{", ".join(str(ids[x]) for x in all_)}] }}')
    L.append('')
    L.append('/-- What `entryIds` is supposed to denote. -/')
    L.append('def entryIdNames : List (Nat × String) := [' +
             ', '.join(f'({ids[sname]}, {lean_str(sname)})' for _, sname in ENTRY_NAMES) + ']')
    L.append('def soupsieveAllNames : List String := [' + ', '.join(lean_str(x) for x in all_) + ']')
    L.append('')
    outs = []
    for name in ex.order:
        if name.split('.')[0] == 'soupsieve':
            outs += [f'{name}:{c}' for c in output_calls(ex.mods[name].tree)]
    L.append('/-- Import-time calls of print / warnings.warn / sys.stdout.write / logging.* at module or class level '
             'of the soupsieve modules. -/')
    L.append('def importTimeOutput : List String := [' + ', '.join(lean_str(x) for x in outs) + ']')
    L.append('')
    L.append('/-- Functions whose bodies may run at import time (name-based call graph), with the first module-level '
             'statement that reaches them. Their alias uses are the `viaCall := true` events. -/')
    ci = ',\n  '.join(f'({lean_str(k)}, {lean_str(v)})' for k, v in sorted(ex.called_into.items()))
    L.append(f'def calledAtImport : List (String × String) := [\n  {ci}]')
    L.append('')
    L.append('/-- Function-local import statements of our modules inside functions that may run at import time '
             '(NOT part of the event lists; expected none): (module, function, imported). -/')
    li = []
    reach = set(ex.reachable_functions)
    for name in ex.order:
        for fn, kind, m, a, ln in ex.mods[name].local_imports:
            if (name, fn) in reach:
                li.append(f'({lean_str(name)}, {lean_str(fn)}, {lean_str(m if a is None else m + ":" + a)})')
    L.append('def importTimeLocalImports : List (String × String × String) := [' + ', '.join(li) + ']')
    L.append('')
    L.append('/-- Statements left out on purpose (module, line: reason). -/')
    sk = []
    for name in ex.order:
        for s_ in ex.mods[name].skipped:
            sk.append(f'({lean_str(name)}, {lean_str(s_)})')
    L.append('def skipped : List (String × String) := [\n  ' + ',\n  '.join(sk) + ']')
    L.append('')
    L.append('/-- The text of every name, by id. -/')
    rows = []
    for k in range(0, len(table), 8):
        rows.append('  ' + ', '.join(lean_str(x) for x in table[k:k + 8]))
    L.append('def names : List String := [\n' + ',\n'.join(rows) + '\n]')
    L.append('')
    L.append('/-- Number of names: every name id is below it (`Graph.wellFormed graph width`). -/')
    L.append(f'def width : Nat := {len(table)}')
    L.append('')
    L.append('end SoupVerif.Gen.Imports')
    return '\n'.join(L) + '\n'


def main(dest, repo=REPO):
    ex = extract(repo)
    text = render(ex)
    old = open(dest, encoding='utf-8').read() if os.path.exists(dest) else None
    if old != text:
        with open(dest, 'w', encoding='utf-8') as f:
            f.write(text)
    n_unknown = sum(1 for m in ex.mods.values() for e in m.events if e[0] == 'unknown')
    return dict(modules=len(ex.order), events=sum(len(m.events) for m in ex.mods.values()), unknown=n_unknown,
                viaCall=sum(1 for m in ex.mods.values() for e in m.events if e[0] == 'useAttr' and e[3]))


if __name__ == '__main__':
    print(main(sys.argv[1], *(sys.argv[2:3])))
