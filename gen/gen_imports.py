"""Regenerate lean/SoupVerif/Generated/Imports.lean from the *source text* (ast) of the modules of
/repo/soupsieve and of the installed bs4 package that are reachable through import statements.

For every module the translator emits the ORDERED list of events its body performs at import time:

  importMod M            `import M` / the module part of `from M import ...` (relative names resolved)
  fromImport M n         `from M import n`: `n` must already be an attribute of M, unless M.n is a
                         submodule (then it is imported)
  useAttr M n viaCall    import-time evaluation of `alias.n` where `alias` is bound to the bs4/soupsieve
                         module M: class bases, decorators, default values, module-level and class-level
                         expressions (viaCall = false); and -- over-approximation -- every such use found
                         inside the body of a function that may run at import time because module-level
                         code calls it directly or indirectly (viaCall = true), emitted at the position of
                         the module-level call.  "May run" is a name-based call graph (rapid type analysis):
                         a reference to a function is a call; a reference to a class instantiates it and
                         makes its dunder methods callable; `x.m` may call method `m` of every class that
                         may have been instantiated (and its base classes); a call whose callee cannot be
                         named (a parameter, a subscript, a call result) may call every function whose
                         name is mentioned anywhere outside callee position.
  define n               top-level def / class / assignment target / import binding
  unknown what           something the translator does not understand: the model turns it into an error,
                         so every theorem about an entry point that reaches it becomes false (fail closed)

Not executed at import time and therefore left out: function and lambda bodies (except through viaCall),
`if TYPE_CHECKING:` blocks, `if __name__ == "__main__":` blocks, `except` handler bodies (they only run
after a failure, and a failure already is an error in the model), annotations of modules that start with
`from __future__ import annotations`.

Modules outside the packages `bs4` and `soupsieve` are opaque and always importable.
"""
import ast
import builtins
import importlib.util
import os
import sys

REPO = os.environ.get('SOUPVERIF_REPO', '/repo')
MODULE_DUNDERS = {'__name__', '__doc__', '__file__', '__path__', '__package__', '__spec__', '__loader__',
                  '__dict__', '__builtins__', '__cached__'}
OUTPUT_CALLS = {'print', 'warnings.warn', 'warnings.warn_explicit', 'sys.stdout.write', 'sys.stderr.write',
                'sys.stdout.writelines', 'sys.stderr.writelines', 'input', 'breakpoint'}
BUILTIN_NAMES = set(dir(builtins))


def lean_str(s):
    out = []
    for ch in s:
        if ch == '\\':
            out.append('\\\\')
        elif ch == '"':
            out.append('\\"')
        elif ch == '\n':
            out.append('\\n')
        elif ord(ch) < 32 or ord(ch) > 126:
            out.append('\\u{%x}' % ord(ch))
        else:
            out.append(ch)
    return '"' + ''.join(out) + '"'


def package_roots(repo):
    roots = {'soupsieve': os.path.join(repo, 'soupsieve')}
    bs4_dir = os.environ.get('SOUPVERIF_BS4')
    if not bs4_dir:
        spec = importlib.util.find_spec('bs4')  # locating a top-level package does not execute it
        if spec is None or not spec.submodule_search_locations:
            raise RuntimeError('bs4 is not installed in this interpreter')
        bs4_dir = list(spec.submodule_search_locations)[0]
    roots['bs4'] = bs4_dir
    for k, v in roots.items():
        if not os.path.isfile(os.path.join(v, '__init__.py')):
            raise RuntimeError(f'package {k}: no __init__.py under {v}')
    return roots


class Finder:
    def __init__(self, roots):
        self.roots = roots

    def path_of(self, name):
        """(file, is_package) of a bs4/soupsieve module, or None."""
        parts = name.split('.')
        if parts[0] not in self.roots:
            return None
        base = os.path.join(self.roots[parts[0]], *parts[1:])
        if os.path.isfile(os.path.join(base, '__init__.py')):
            return os.path.join(base, '__init__.py'), True
        if len(parts) > 1 and os.path.isfile(base + '.py'):
            return base + '.py', False
        return None

    def is_ours(self, name):
        return name.split('.')[0] in self.roots

    def exists(self, name):
        return self.path_of(name) is not None


def dotted(e):
    """`a.b.c` -> ['a','b','c'] for a pure Name/Attribute chain, else None."""
    parts = []
    while isinstance(e, ast.Attribute):
        parts.append(e.attr)
        e = e.value
    if isinstance(e, ast.Name):
        parts.append(e.id)
        return list(reversed(parts))
    return None


def static_test(test):
    """True / False when the `if` test is decided before run time, else None."""
    src = ast.unparse(test)
    if src in ('TYPE_CHECKING', 'typing.TYPE_CHECKING'):
        return False
    if src in ("__name__ == '__main__'", '__name__ == "__main__"'):
        return False
    names = {n.id for n in ast.walk(test) if isinstance(n, ast.Name)}
    if names == {'sys'} and 'sys.version_info' in src and not any(isinstance(n, ast.Call) for n in ast.walk(test)):
        try:
            return bool(eval(compile(ast.Expression(test), '<test>', 'eval'), {'sys': sys, '__builtins__': {}}))
        except Exception:
            return None
    return None


class Refs:
    """What a piece of code mentions: the raw material of the call graph and of the useAttr events."""

    def __init__(self):
        self.names = set()         # Name loads
        self.attrs = set()         # `.m` loads on receivers that are not module aliases
        self.alias_attrs = set()   # (our module, attr) reached through a module alias
        self.uses = []             # (our module, attr, lineno): the useAttr events, in source order
        self.exotic = False        # contains a call whose callee is not a name / attribute chain
        self.called_names = set()  # Names in callee position (to decide exotic-ness after resolution)
        self.has_call = False
        self.noncallee_names = set()
        self.noncallee_attrs = set()

    def merge(self, o):
        self.names |= o.names
        self.attrs |= o.attrs
        self.alias_attrs |= o.alias_attrs
        self.uses += o.uses
        self.exotic |= o.exotic
        self.called_names |= o.called_names
        self.has_call |= o.has_call
        self.noncallee_names |= o.noncallee_names
        self.noncallee_attrs |= o.noncallee_attrs


class ModuleInfo:
    def __init__(self, name, path, is_pkg, finder):
        self.name = name
        self.path = path
        self.is_pkg = is_pkg
        self.finder = finder
        self.tree = ast.parse(open(path, encoding='utf-8').read(), filename=path)
        self.future_annotations = any(
            isinstance(s, ast.ImportFrom) and s.module == '__future__' and any(a.name == 'annotations' for a in s.names)
            for s in self.tree.body)
        self.package = name if is_pkg else name.rpartition('.')[0]
        self.aliases = {}        # module-level name -> our module it is bound to
        self.from_names = {}     # module-level name -> (module, attribute) for `from M import attr`
        self.assign_alias = {}   # module-level `N = a.b.c` -> ['a','b','c']
        self.top_defs = {}       # name -> ast node (FunctionDef / ClassDef)
        self.events = []
        self.skipped = []
        self.funcs = {}          # qualname -> Refs of the body
        self.classes = {}        # qualname -> dict(methods={name: qualname}, bases=[dotted parts])
        self.collect_bindings()
        self.collect_functions()

    # ---- resolution -------------------------------------------------------------------------
    def resolve_from(self, node):
        if node.level == 0:
            return node.module
        base = self.package.split('.')
        if node.level > 1:
            base = base[:len(base) - (node.level - 1)]
        if not base or base == ['']:
            raise RuntimeError(f'{self.name}:{node.lineno}: relative import beyond top-level package')
        return '.'.join(base + ([node.module] if node.module else []))

    def collect_bindings(self):
        """Module-level aliases (flow-insensitive; any binding of a name to one of our modules counts)."""
        def visit(stmts):
            for st in stmts:
                if isinstance(st, ast.Import):
                    for al in st.names:
                        if al.asname:
                            self.aliases[al.asname] = al.name
                        else:
                            self.aliases[al.name.split('.')[0]] = al.name.split('.')[0]
                elif isinstance(st, ast.ImportFrom):
                    m = self.resolve_from(st)
                    for al in st.names:
                        if al.name == '*':
                            continue
                        bound = al.asname or al.name
                        if self.finder.exists(m + '.' + al.name):
                            self.aliases[bound] = m + '.' + al.name
                        else:
                            self.from_names[bound] = (m, al.name)
                elif isinstance(st, ast.If):
                    t = static_test(st.test)
                    if t is not False:
                        visit(st.body)
                    if t is not True:
                        visit(st.orelse)
                elif isinstance(st, ast.Try):
                    visit(st.body); visit(st.orelse); visit(st.finalbody)
                    for h in st.handlers:
                        visit(h.body)
                elif isinstance(st, (ast.For, ast.While, ast.With)):
                    visit(st.body); visit(getattr(st, 'orelse', []))
                elif isinstance(st, (ast.FunctionDef, ast.AsyncFunctionDef, ast.ClassDef)):
                    self.top_defs[st.name] = st
                elif isinstance(st, ast.Assign) and len(st.targets) == 1 and isinstance(st.targets[0], ast.Name):
                    d = dotted(st.value)
                    if d:
                        self.assign_alias[st.targets[0].id] = d
        visit(self.tree.body)
        self.aliases = {k: v for k, v in self.aliases.items() if self.finder.is_ours(v)}

    # ---- what code mentions ---------------------------------------------------------------------
    def refs_of(self, nodes, aliases, now):
        """Refs of a list of AST nodes.  now=True: only what is evaluated when the expression is evaluated
        (lambda bodies are skipped, their defaults are not); now=False: everything below (function bodies)."""
        r = Refs()
        todo = list(reversed([n for n in nodes if n is not None]))
        callee_ids = set()
        while todo:
            n = todo.pop()
            if isinstance(n, ast.Lambda) and now:
                todo.extend(d for d in n.args.defaults if d is not None)
                todo.extend(d for d in n.args.kw_defaults if d is not None)
                continue
            if isinstance(n, (ast.Import, ast.ImportFrom)):
                continue
            if isinstance(n, ast.Call):
                r.has_call = True
                f = n.func
                callee_ids.add(id(f))
                if isinstance(f, ast.Name):
                    r.called_names.add(f.id)
                elif not isinstance(f, ast.Attribute):
                    r.exotic = True
            if isinstance(n, ast.Attribute) and isinstance(n.ctx, ast.Load):
                d = dotted(n)
                if d and d[0] in aliases:
                    mod = aliases[d[0]]
                    rest = d[1:]
                    i = 0
                    while i < len(rest):
                        a = rest[i]
                        if a in MODULE_DUNDERS:
                            break
                        r.uses.append((mod, a, n.lineno))
                        if self.finder.exists(mod + '.' + a):
                            mod = mod + '.' + a
                            i += 1
                            continue
                        r.alias_attrs.add((mod, a))
                        # deeper attributes are ordinary attribute loads (e.g. cm.CSSMatch.method)
                        for b in rest[i + 1:]:
                            r.attrs.add(b)
                            if id(n) not in callee_ids:
                                r.noncallee_attrs.add(b)
                        break
                    continue
                r.attrs.add(n.attr)
                if id(n) not in callee_ids:
                    r.noncallee_attrs.add(n.attr)
            elif isinstance(n, ast.Name) and isinstance(n.ctx, ast.Load):
                r.names.add(n.id)
                if id(n) not in callee_ids:
                    r.noncallee_names.add(n.id)
            children = list(ast.iter_child_nodes(n))
            todo.extend(reversed(children))
        return r

    def header_nodes(self, fn):
        """Expressions of a def statement that are evaluated when the def statement runs."""
        a = fn.args
        nodes = list(fn.decorator_list) + list(a.defaults) + [k for k in a.kw_defaults if k is not None]
        if not self.future_annotations:
            for arg in a.posonlyargs + a.args + a.kwonlyargs + [a.vararg, a.kwarg]:
                if arg is not None and arg.annotation is not None and not isinstance(arg.annotation, ast.Constant):
                    nodes.append(arg.annotation)
            if fn.returns is not None and not isinstance(fn.returns, ast.Constant):
                nodes.append(fn.returns)
        return nodes

    def local_aliases(self, fn):
        """Module aliases visible inside a function: module-level ones minus shadowed names, plus the
        function's own imports.  Also returns those local import statements."""
        aliases = dict(self.aliases)
        shadow = set()
        for n in ast.walk(fn):
            if isinstance(n, ast.Name) and isinstance(n.ctx, ast.Store):
                shadow.add(n.id)
            elif isinstance(n, ast.arg):
                shadow.add(n.arg)
        for s in shadow:
            aliases.pop(s, None)
        local_imports = []
        for n in ast.walk(fn):
            if isinstance(n, ast.Import):
                for al in n.names:
                    if self.finder.is_ours(al.name):
                        aliases[al.asname or al.name.split('.')[0]] = al.name if al.asname else al.name.split('.')[0]
                        local_imports.append(('import', al.name, None, n.lineno))
            elif isinstance(n, ast.ImportFrom):
                m = self.resolve_from(n)
                if m and self.finder.is_ours(m):
                    for al in n.names:
                        if self.finder.exists(m + '.' + al.name):
                            aliases[al.asname or al.name] = m + '.' + al.name
                        local_imports.append(('from', m, al.name, n.lineno))
        return aliases, local_imports

    def collect_functions(self):
        """One Refs per top-level function and per method (nested functions are folded into their parent)."""
        self.local_imports = []

        def add_fn(qual, fn):
            aliases, li = self.local_aliases(fn)
            r = self.refs_of(fn.body, aliases, now=False)
            # nested defs: their headers are evaluated when the parent runs; already covered by walking the body
            self.funcs[qual] = r
            for kind, m, a, ln in li:
                self.local_imports.append((qual, kind, m, a, ln))

        def add_class(qual, cls):
            methods = {}
            for st in ast.walk(cls):
                pass
            for st in cls.body:
                if isinstance(st, (ast.FunctionDef, ast.AsyncFunctionDef)):
                    methods[st.name] = qual + '.' + st.name
                    add_fn(qual + '.' + st.name, st)
                elif isinstance(st, ast.ClassDef):
                    add_class(qual + '.' + st.name, st)
            self.classes[qual] = dict(methods=methods, bases=[dotted(b) for b in cls.bases if dotted(b)],
                                      meta=[dotted(k.value) for k in cls.keywords if dotted(k.value)])

        def visit(stmts):
            for st in stmts:
                if isinstance(st, (ast.FunctionDef, ast.AsyncFunctionDef)):
                    add_fn(st.name, st)
                elif isinstance(st, ast.ClassDef):
                    add_class(st.name, st)
                elif isinstance(st, (ast.If, ast.Try, ast.For, ast.While, ast.With)):
                    for f in ('body', 'orelse', 'finalbody'):
                        visit(getattr(st, f, []))
                    for h in getattr(st, 'handlers', []):
                        visit(h.body)
        visit(self.tree.body)


class Extractor:
    def __init__(self, repo=REPO):
        self.finder = Finder(package_roots(repo))
        self.mods = {}
        self.order = []

    def load(self, name):
        if name in self.mods:
            return self.mods[name]
        p = self.finder.path_of(name)
        if p is None:
            raise RuntimeError(f'module {name} not found')
        if '.' in name:
            self.load(name.rpartition('.')[0])
        mi = ModuleInfo(name, p[0], p[1], self.finder)
        self.mods[name] = mi
        self.order.append(name)
        return mi

    # ---- module-level scan ----------------------------------------------------------------------
    def scan(self, mi):
        ev = mi.events
        finder = self.finder
        pending = []

        def expr(nodes, lineno, force_call=False):
            r = mi.refs_of(nodes if isinstance(nodes, list) else [nodes], mi.aliases, now=True)
            for m, a, ln in r.uses:
                ev.append(('useAttr', m, a, False, ln))
            if r.has_call or force_call:
                ev.append(('call', r, lineno))

        def targets(t, in_class):
            if isinstance(t, ast.Name):
                if not in_class:
                    ev.append(('define', t.id))
            elif isinstance(t, (ast.Tuple, ast.List)):
                for x in t.elts:
                    targets(x, in_class)
            elif isinstance(t, ast.Starred):
                targets(t.value, in_class)
            elif isinstance(t, (ast.Attribute, ast.Subscript)):
                d = dotted(t) if isinstance(t, ast.Attribute) else None
                if d and d[0] in mi.aliases:
                    ev.append(('unknown', f'{mi.name}:{t.lineno}: store to attribute of module alias {".".join(d)}'))
                else:
                    expr(t.value, t.lineno)
                    if isinstance(t, ast.Subscript):
                        expr(t.slice, t.lineno)
            else:
                ev.append(('unknown', f'{mi.name}:{t.lineno}: assignment target {type(t).__name__}'))

        def do_import(st, in_class):
            for al in st.names:
                if finder.is_ours(al.name):
                    if not finder.exists(al.name):
                        ev.append(('unknown', f'{mi.name}:{st.lineno}: import of missing module {al.name}'))
                        continue
                    pending.append(al.name)
                    ev.append(('importMod', al.name))
                if not in_class:
                    ev.append(('define', al.asname or al.name.split('.')[0]))

        def do_from(st, in_class):
            m = mi.resolve_from(st)
            if m == '__future__':
                return
            ours = finder.is_ours(m)
            if ours:
                if not finder.exists(m):
                    ev.append(('unknown', f'{mi.name}:{st.lineno}: from-import of missing module {m}'))
                    return
                pending.append(m)
                ev.append(('importMod', m))
            for al in st.names:
                if al.name == '*':
                    if ours:
                        ev.append(('unknown', f'{mi.name}:{st.lineno}: from {m} import *'))
                    continue
                if ours:
                    if finder.exists(m + '.' + al.name):
                        pending.append(m + '.' + al.name)
                    ev.append(('fromImport', m, al.name))
                if not in_class:
                    ev.append(('define', al.asname or al.name))

        def stmts(body, in_class):
            for st in body:
                stmt(st, in_class)

        def stmt(st, in_class):
            if isinstance(st, (ast.FunctionDef, ast.AsyncFunctionDef)):
                # applying a decorator is a call
                expr(mi.header_nodes(st), st.lineno, force_call=bool(st.decorator_list))
                if not in_class:
                    ev.append(('define', st.name))
            elif isinstance(st, ast.ClassDef):
                # creating a class calls the metaclass and the bases' __init_subclass__
                expr(list(st.decorator_list) + list(st.bases) + [k.value for k in st.keywords], st.lineno,
                     force_call=True)
                stmts(st.body, True)
                if not in_class:
                    ev.append(('define', st.name))
            elif isinstance(st, ast.Import):
                do_import(st, in_class)
            elif isinstance(st, ast.ImportFrom):
                do_from(st, in_class)
            elif isinstance(st, ast.If):
                t = static_test(st.test)
                if t is True:
                    stmts(st.body, in_class)
                elif t is False:
                    mi.skipped.append(f'{st.lineno}: if {ast.unparse(st.test)} (statically false)')
                    stmts(st.orelse, in_class)
                else:
                    # undecided test: requirements of both branches; a branch that binds names or imports
                    # cannot be summarised
                    expr(st.test, st.lineno)
                    for branch in (st.body, st.orelse):
                        for s in branch:
                            if isinstance(s, (ast.Pass, ast.Raise)):
                                continue
                            if isinstance(s, ast.Expr):
                                expr(s.value, s.lineno)
                                continue
                            ev.append(('unknown', f'{mi.name}:{s.lineno}: {type(s).__name__} under undecided '
                                                  f'`if {ast.unparse(st.test)[:50]}`'))
            elif isinstance(st, ast.Try):
                stmts(st.body, in_class)
                stmts(st.orelse, in_class)
                stmts(st.finalbody, in_class)
                for h in st.handlers:
                    mi.skipped.append(f'{h.lineno}: except {ast.unparse(h.type) if h.type else ""} handler body '
                                      f'({len(h.body)} statements)')
            elif isinstance(st, ast.Assign):
                expr(st.value, st.lineno)
                for t in st.targets:
                    targets(t, in_class)
            elif isinstance(st, ast.AugAssign):
                expr(st.value, st.lineno)
                targets(st.target, in_class)
            elif isinstance(st, ast.AnnAssign):
                if not mi.future_annotations and not isinstance(st.annotation, ast.Constant):
                    expr(st.annotation, st.lineno)
                if st.value is not None:
                    expr(st.value, st.lineno)
                    targets(st.target, in_class)
            elif isinstance(st, ast.Expr):
                if isinstance(st.value, ast.Constant):
                    return
                expr(st.value, st.lineno)
            elif isinstance(st, (ast.For, ast.AsyncFor)):
                expr(st.iter, st.lineno)
                targets(st.target, in_class)
                stmts(st.body, in_class)
                stmts(st.orelse, in_class)
            elif isinstance(st, ast.While):
                expr(st.test, st.lineno)
                stmts(st.body, in_class)
                stmts(st.orelse, in_class)
            elif isinstance(st, (ast.With, ast.AsyncWith)):
                for it in st.items:
                    expr(it.context_expr, st.lineno)
                    if it.optional_vars is not None:
                        targets(it.optional_vars, in_class)
                stmts(st.body, in_class)
            elif isinstance(st, ast.Assert):
                expr(st.test, st.lineno)
            elif isinstance(st, ast.Pass):
                pass
            else:
                ev.append(('unknown', f'{mi.name}:{st.lineno}: top-level {type(st).__name__}'))

        stmts(mi.tree.body, False)
        return pending

    def run(self, roots):
        todo = list(roots)
        scanned = set()
        while todo:
            name = todo.pop(0)
            if name in scanned:
                continue
            parts = name.split('.')
            for i in range(1, len(parts)):
                anc = '.'.join(parts[:i])
                if anc not in scanned:
                    todo.insert(0, name)
                    name = anc
                    break
            if name in scanned:
                continue
            mi = self.load(name)
            scanned.add(name)
            todo.extend(self.scan(mi))
        self.expand_calls()

    # ---- call graph (rapid type analysis, name based) -------------------------------------------------
    def resolve(self, mod, parts, depth=0):
        """('fn', module, qualname) / ('class', module, qualname) / None for a dotted reference in `mod`."""
        if depth > 8 or mod not in self.mods:
            return None
        mi = self.mods[mod]
        head = parts[0]
        if head in mi.aliases:
            m = mi.aliases[head]
            rest = parts[1:]
            while rest and self.finder.exists(m + '.' + rest[0]):
                m = m + '.' + rest[0]
                rest = rest[1:]
            if not rest:
                return None
            return self.resolve(m, rest, depth + 1)
        if head in mi.top_defs:
            node = mi.top_defs[head]
            if isinstance(node, ast.ClassDef):
                if len(parts) == 1:
                    return ('class', mod, head)
                q = '.'.join(parts)
                if q in mi.classes:
                    return ('class', mod, q)
                m = mi.classes.get(head, {}).get('methods', {}).get(parts[1])
                # a method reached through its class: the class counts as referenced too
                return ('class+fn', mod, head, m) if m else ('class', mod, head)
            return ('fn', mod, head) if len(parts) == 1 else None
        if head in mi.from_names:
            m, a = mi.from_names[head]
            return self.resolve(m, [a] + parts[1:], depth + 1) if self.finder.is_ours(m) else None
        if head in mi.assign_alias and mi.assign_alias[head][0] != head:
            return self.resolve(mod, mi.assign_alias[head] + parts[1:], depth + 1)
        return None

    def unresolved_callee(self, mod, name):
        """A called bare name that is neither ours, nor a builtin, nor imported from an opaque module: a
        parameter or local variable holding some callable."""
        mi = self.mods[mod]
        if self.resolve(mod, [name]) is not None:
            return False
        if name in BUILTIN_NAMES:
            return False
        if name in mi.from_names and not self.finder.is_ours(mi.from_names[name][0]):
            return False
        if name in mi.aliases:
            return False
        return True

    def expand_calls(self):
        mods = self.mods
        # address-taken functions: mentioned outside callee position anywhere
        all_refs = []
        for mn, mi in mods.items():
            for q, r in mi.funcs.items():
                all_refs.append((mn, r))
            for e in mi.events:
                if e[0] == 'call':
                    all_refs.append((mn, e[1]))
        taken_fns = set()
        taken_attr_names = set()
        for mn, r in all_refs:
            for n in r.noncallee_names:
                t = self.resolve(mn, [n])
                if t and t[0] == 'fn':
                    taken_fns.add((t[1], t[2]))
            taken_attr_names |= r.noncallee_attrs
        for mn, mi in mods.items():
            for cq, c in mi.classes.items():
                for m, q in c['methods'].items():
                    if m in taken_attr_names:
                        taken_fns.add((mn, q))

        R = set()          # reachable functions (module, qualname)
        I = set()          # classes that may have instances / are referenced at import time
        A = set()          # attribute names loaded in reachable code
        exotic_seen = [False]
        work = []

        def add_fn(mn, q):
            if q is not None and (mn, q) not in R and q in mods[mn].funcs:
                R.add((mn, q))
                work.append((mn, mods[mn].funcs[q]))

        def add_class(mn, q):
            if (mn, q) in I or q not in mods[mn].classes:
                return
            I.add((mn, q))
            c = mods[mn].classes[q]
            for m, fq in c['methods'].items():
                if (m.startswith('__') and m.endswith('__')) or m in A:
                    add_fn(mn, fq)
            for b in c['bases'] + c['meta']:
                t = self.resolve(mn, b)
                if t and t[0].startswith('class'):
                    add_class(t[1], t[2])

        def add_attr(a):
            if a in A:
                return
            A.add(a)
            for (mn, q) in list(I):
                fq = mods[mn].classes[q]['methods'].get(a)
                if fq:
                    add_fn(mn, fq)

        def add_target(t):
            if t is None:
                return
            if t[0] == 'fn':
                add_fn(t[1], t[2])
            elif t[0] == 'class':
                add_class(t[1], t[2])
            elif t[0] == 'class+fn':
                add_class(t[1], t[2])
                add_fn(t[1], t[3])

        def process(mn, r):
            for n in r.names:
                add_target(self.resolve(mn, [n]))
            for (m, a) in r.alias_attrs:
                add_target(self.resolve(m, [a]))
            for a in r.attrs:
                add_attr(a)
            if r.exotic or any(self.unresolved_callee(mn, n) for n in r.called_names):
                if not exotic_seen[0]:
                    exotic_seen[0] = True
                    for (m, q) in taken_fns:
                        add_fn(m, q)

        def closure(seed_mod, seed_refs):
            """Functions that may run when the import-time expression with these refs is evaluated.  The sets
            I and A are shared by all seeds (a class instantiated by one statement stays instantiated)."""
            before = set(R)
            process(seed_mod, seed_refs)
            while work:
                mn, r = work.pop()
                process(mn, r)
            return R - before

        # global fixpoint first (so that I and A are complete), then per-statement reachability in that graph
        for mn in self.order:
            for e in mods[mn].events:
                if e[0] == 'call':
                    closure(mn, e[1])
        finalI, finalA, final_exotic = set(I), set(A), exotic_seen[0]
        self.reachable_functions = sorted(R)
        self.instantiated = sorted(I)

        def edges(mn, r):
            out = set()
            cls = set()
            for n in r.names:
                t = self.resolve(mn, [n])
                if t:
                    out |= tgt(t)
            for (m, a) in r.alias_attrs:
                t = self.resolve(m, [a])
                if t:
                    out |= tgt(t)
            for a in r.attrs:
                for (cm_, q) in finalI:
                    fq = mods[cm_].classes[q]['methods'].get(a)
                    if fq:
                        out.add((cm_, fq))
            if r.exotic or any(self.unresolved_callee(mn, n) for n in r.called_names):
                out |= taken_fns
            return out

        def tgt(t):
            if t[0] == 'fn':
                return {(t[1], t[2])}
            out = set()
            # dunders of the class and of its ancestors
            seen = set()
            stack = [(t[1], t[2])]
            while stack:
                cm_, q = stack.pop()
                if (cm_, q) in seen or q not in mods[cm_].classes:
                    continue
                seen.add((cm_, q))
                c = mods[cm_].classes[q]
                for m, fq in c['methods'].items():
                    if m.startswith('__') and m.endswith('__'):
                        out.add((cm_, fq))
                for b in c['bases'] + c['meta']:
                    bt = self.resolve(cm_, b)
                    if bt and bt[0].startswith('class'):
                        stack.append((bt[1], bt[2]))
            if t[0] == 'class+fn' and t[3]:
                out.add((t[1], t[3]))
            return out

        edge_cache = {}

        def reach_from(mn, r):
            seen = set()
            stack = list(edges(mn, r))
            while stack:
                f = stack.pop()
                if f in seen or f[1] not in mods[f[0]].funcs:
                    continue
                seen.add(f)
                if f not in edge_cache:
                    edge_cache[f] = edges(f[0], mods[f[0]].funcs[f[1]])
                stack.extend(edge_cache[f])
            return seen

        self.called_into = {}
        for mn in self.order:
            mi = mods[mn]
            new = []
            emitted = set()
            for e in mi.events:
                if e[0] != 'call':
                    new.append(e)
                    continue
                fs = reach_from(mn, e[1])
                for f in sorted(fs):
                    self.called_into.setdefault(f'{f[0]}:{f[1]}', f'{mn}:{e[2]}')
                    for (m, a, ln) in mods[f[0]].funcs[f[1]].uses:
                        if (m, a) not in emitted:
                            emitted.add((m, a))
                            new.append(('useAttr', m, a, True, ln))
            mi.events = new


def output_calls(tree):
    """Names of calls to print / warnings.warn / sys.stdout.write / logging.* evaluated at import time
    (module level and class level, not inside function bodies)."""
    found = []

    def expr(e):
        todo = [e]
        while todo:
            n = todo.pop()
            if isinstance(n, ast.Lambda):
                continue
            if isinstance(n, ast.Call):
                d = dotted(n.func)
                if d:
                    s = '.'.join(d)
                    if s in OUTPUT_CALLS or d[-1] in ('warn', 'warn_explicit') or d[0] == 'logging':
                        found.append(f'{s}@{n.lineno}')
            todo.extend(ast.iter_child_nodes(n))

    def stmts(body):
        for st in body:
            if isinstance(st, (ast.FunctionDef, ast.AsyncFunctionDef)):
                for d in st.decorator_list:
                    expr(d)
                for d in list(st.args.defaults) + [k for k in st.args.kw_defaults if k is not None]:
                    expr(d)
            elif isinstance(st, ast.ClassDef):
                for d in st.decorator_list + st.bases:
                    expr(d)
                stmts(st.body)
            elif isinstance(st, ast.If):
                t = static_test(st.test)
                expr(st.test)
                if t is not False:
                    stmts(st.body)
                if t is not True:
                    stmts(st.orelse)
            elif isinstance(st, ast.Try):
                stmts(st.body); stmts(st.orelse); stmts(st.finalbody)
                for h in st.handlers:
                    stmts(h.body)
            elif isinstance(st, (ast.For, ast.While, ast.With, ast.AsyncFor, ast.AsyncWith)):
                for f in ('iter', 'test'):
                    if hasattr(st, f):
                        expr(getattr(st, f))
                for it in getattr(st, 'items', []):
                    expr(it.context_expr)
                stmts(st.body); stmts(getattr(st, 'orelse', []))
            else:
                expr(st)
    stmts(tree.body)
    return found


def dunder_all(tree):
    for st in tree.body:
        if isinstance(st, ast.Assign) and any(isinstance(t, ast.Name) and t.id == '__all__' for t in st.targets):
            try:
                v = ast.literal_eval(st.value)
            except Exception:
                return None
            if all(isinstance(x, str) for x in v):
                return list(v)
            return None
    return None


ENTRY_ROOTS = ['bs4', 'bs4.element', 'soupsieve', 'soupsieve.__meta__', 'soupsieve.util', 'soupsieve.pretty',
               'soupsieve.css_types', 'soupsieve.css_match', 'soupsieve.css_parser']


def extract(repo=REPO):
    ex = Extractor(repo)
    ex.run(ENTRY_ROOTS)
    return ex


def render(ex):
    L = [
        '/- GENERATED by gen/gen_imports.py from the source text (ast) of /repo/soupsieve/*.py and of the bs4',
        '   modules reachable through import statements. Do not edit. -/',
        'import SoupVerif.Model.Imports',
        'namespace SoupVerif.Gen.Imports',
        'open SoupVerif.Imports',
        'set_option maxRecDepth 100000',
        '',
    ]
    names = []
    for name in ex.order:
        mi = ex.mods[name]
        ident = 'ev_' + name.replace('.', '_')
        names.append((name, ident, mi))
        L.append(f'/-- `{name}` ({os.path.basename(os.path.dirname(mi.path))}/{os.path.basename(mi.path)}); '
                 f'postponed annotations: {mi.future_annotations}. -/')
        rows = []
        for e in mi.events:
            if e[0] == 'importMod':
                rows.append(f'.importMod {lean_str(e[1])}')
            elif e[0] == 'fromImport':
                rows.append(f'.fromImport {lean_str(e[1])} {lean_str(e[2])}')
            elif e[0] == 'useAttr':
                rows.append(f'.useAttr {lean_str(e[1])} {lean_str(e[2])} {"true" if e[3] else "false"}')
            elif e[0] == 'define':
                rows.append(f'.define {lean_str(e[1])}')
            elif e[0] == 'unknown':
                rows.append(f'.unknown {lean_str(e[1])}')
            else:
                raise RuntimeError(f'unexpanded event {e!r}')
        L.append(f'def {ident} : List Event := [')
        L.append(',\n'.join('  ' + r for r in rows))
        L.append(']')
        L.append('')
    L.append('/-- Every bs4 / soupsieve module reachable through import statements, parents before children. '
             '`parent`/`leaf` split the dotted name (`parent = ""` for a top-level package). -/')
    items = []
    for name, ident, mi in names:
        parent, _, leaf = name.rpartition('.')
        items.append(f'  {{ name := {lean_str(name)}, parent := {lean_str(parent)}, leaf := {lean_str(leaf)}, '
                     f'events := {ident} }}')
    L.append('def graph : Graph := [\n' + ',\n'.join(items) + '\n]')
    L.append('')
    all_ = dunder_all(ex.mods['soupsieve'].tree)
    L.append('/-- `soupsieve.__all__` (what `from soupsieve import *` fetches). An unreadable `__all__` is emitted as a '
             'name that is never defined. -/')
    if all_ is None:
        all_ = ['<__all__ is not a literal sequence of strings>']
    L.append('def soupsieveAll : List String := [' + ', '.join(lean_str(x) for x in all_) + ']')
    L.append('')
    outs = []
    for name, ident, mi in names:
        if name.split('.')[0] == 'soupsieve':
            outs += [f'{name}:{c}' for c in output_calls(mi.tree)]
    L.append('/-- Import-time calls of print / warnings.warn / sys.stdout.write / logging.* at module or class level '
             'of the soupsieve modules. -/')
    L.append('def importTimeOutput : List String := [' + ', '.join(lean_str(x) for x in outs) + ']')
    L.append('')
    L.append('/-- Functions whose bodies may run at import time (name-based call graph), with the first module-level '
             'statement that reaches them. Their alias uses are the `viaCall := true` events. -/')
    ci = ',\n  '.join(f'({lean_str(k)}, {lean_str(v)})' for k, v in sorted(ex.called_into.items()))
    L.append(f'def calledAtImport : List (String × String) := [\n  {ci}]')
    L.append('')
    L.append('/-- Function-local import statements of our modules inside functions that may run at import time '
             '(NOT part of the event lists; expected none): (module, function, imported). -/')
    li = []
    reach = set(ex.reachable_functions)
    for name in ex.order:
        for fn, kind, m, a, ln in ex.mods[name].local_imports:
            if (name, fn) in reach:
                li.append(f'({lean_str(name)}, {lean_str(fn)}, {lean_str(m if a is None else m + ":" + a)})')
    L.append('def importTimeLocalImports : List (String × String × String) := [' + ', '.join(li) + ']')
    L.append('')
    L.append('/-- Statements left out on purpose (module, line: reason). -/')
    sk = []
    for name in ex.order:
        for s in ex.mods[name].skipped:
            sk.append(f'({lean_str(name)}, {lean_str(s)})')
    L.append('def skipped : List (String × String) := [\n  ' + ',\n  '.join(sk) + ']')
    L.append('')
    L.append('end SoupVerif.Gen.Imports')
    return '\n'.join(L) + '\n'


def main(dest, repo=REPO):
    ex = extract(repo)
    text = render(ex)
    old = open(dest, encoding='utf-8').read() if os.path.exists(dest) else None
    if old != text:
        with open(dest, 'w', encoding='utf-8') as f:
            f.write(text)
    n_unknown = sum(1 for m in ex.mods.values() for e in m.events if e[0] == 'unknown')
    return dict(modules=len(ex.order), events=sum(len(m.events) for m in ex.mods.values()), unknown=n_unknown,
                viaCall=sum(1 for m in ex.mods.values() for e in m.events if e[0] == 'useAttr' and e[3]))


if __name__ == '__main__':
    print(main(sys.argv[1], *(sys.argv[2:3])))
