"""Regenerate lean/SoupVerif/Generated/PyAttrName.lean from the SOURCE TEXT (ast) of the generator
`CSSMatch.match_attribute_name(self, el, attr, prefix)` in $SOUPVERIF_REPO/soupsieve/css_match.py.

The function must have this FRAME (checked; anything else raises `Unsupported`, i.e. the translator FAILS CLOSED:
gen_all reports FAILED and the pipeline treats the proof side as broken):

    [docstring]
    if <test>:
        <prologue statements>
        for <k>, <v> in self.iter_attributes(el):
            <iteration statements>
    else:
        for <k>, <v> in self.iter_attributes(el):
            <iteration statements>

  prologue statements   `x = <expr>` (one Name target, not a parameter), `if <expr>: … [else: …]`, bare `return`
                        (last in its block).  Every path that reaches the loop must have bound the ONE local the
                        first loop reads without binding it itself (`ns`).
  iteration statements  `<a>, <b> = self.split_namespace(el, <k>)`
                        `if <expr>: [yield <v> | if <expr>: yield <v>] continue`        (no `else`)
                        `yield <v>` / `continue` as the last statement
                        — so an iteration yields at most once, and nothing but the loop's value variable.
  expressions           `None` / `True` / `False` / string constants, the parameters `attr` and `prefix`, bound locals,
                        the loop's key variable, `self.is_xml`, `not`, `and`, `or`, `a if c else b`,
                        a single `==` / `!=` / `is None` / `is not None`, `util.lower(x)` (checked to be
                        soupsieve.util.lower), `self.namespaces.get(x)`, `self.supports_namespaces()`.

Emitted (namespace `SoupVerif.Gen.PyAttrName`, over the dynamic values `PyMatchSel.PV` of Model/MatchDyn.lean and the
shapes of Model/AttrNameDyn.lean):

  prefixLookup c attr pfx : Pre                  the prologue: `.ret` (bare return) / `.go ns` / `.err`
  designates c attr pfx ns k sp : PV             first loop: does the iteration for the attribute with key `k` and
                                                 `split_namespace` result `sp` yield its value
  designatesPlain c attr pfx k sp : PV           second loop, likewise
  match_attribute_name c e attr pfx : Yields     the frame: test, prologue, loops

Comments, docstrings, annotations, blank lines and the NAMES of parameters and locals do not reach the output (locals
are numbered in order of first assignment; parameters and loop variables get fixed names).
"""
import ast
import os
import sys

REPO = os.environ.get('SOUPVERIF_REPO', '/repo')
SRC = os.path.join(REPO, 'soupsieve', 'css_match.py')
CLASS = 'CSSMatch'
FUNC = 'match_attribute_name'


class Unsupported(Exception):
    pass


def fail(node, why):
    text = ''
    if node is not None:
        try:
            text = ' '.join(ast.unparse(node).split())[:200]
        except Exception:
            text = repr(node)
    raise Unsupported(f'{FUNC}: {why} line {getattr(node, "lineno", "?")}: {text}')


def lean_s(text):
    return '[' + ', '.join(str(ord(ch)) for ch in text) + ']'


def strip_doc(body):
    if body and isinstance(body[0], ast.Expr) and isinstance(body[0].value, ast.Constant) \
            and isinstance(body[0].value.value, str):
        return body[1:]
    return body


def find_method(tree, name):
    found = [item for node in tree.body if isinstance(node, ast.ClassDef) and node.name == CLASS
             for item in node.body if isinstance(item, (ast.FunctionDef, ast.AsyncFunctionDef)) and item.name == name]
    if len(found) != 1:
        raise Unsupported(f'{CLASS}.{name}: expected exactly one definition, found {len(found)}')
    return found[0]


def is_name(e, name):
    return isinstance(e, ast.Name) and e.id == name


class Translator:
    def __init__(self, fn, module):
        self.fn = fn
        self.m = module
        a = fn.args
        if not isinstance(fn, ast.FunctionDef) or fn.decorator_list or a.posonlyargs or a.kwonlyargs or a.vararg \
                or a.kwarg or a.defaults or a.kw_defaults or len(a.args) != 4:
            fail(fn, 'not a plain method with parameters (self, el, attr, prefix)')
        self.self_, self.el, self.attr, self.prefix = [x.arg for x in a.args]
        if len({self.self_, self.el, self.attr, self.prefix}) != 4:
            fail(fn, 'duplicate parameter names')
        self.params = {self.self_, self.el, self.attr, self.prefix}
        self.assigned = {n.id for n in ast.walk(fn) if isinstance(n, ast.Name) and isinstance(n.ctx, (ast.Store, ast.Del))}
        if self.assigned & self.params:
            fail(fn, 'assignment to a parameter')
        for n in ast.walk(fn):
            if isinstance(n, (ast.Global, ast.Nonlocal, ast.Lambda, ast.FunctionDef, ast.AsyncFunctionDef, ast.ClassDef,
                              ast.NamedExpr, ast.ListComp, ast.SetComp, ast.DictComp, ast.GeneratorExp, ast.Await,
                              ast.YieldFrom, ast.Try, ast.With, ast.While, ast.Delete)) and n is not fn:
                fail(n, 'unsupported construct')
        self.slots = {}

    def slot(self, name):
        if name not in self.slots:
            self.slots[name] = len(self.slots)
        return f'x{self.slots[name]}'

    # ------------------------------------------------------------ expressions
    def ex(self, e, env):
        if isinstance(e, ast.Constant):
            v = e.value
            if v is None:
                return '.none'
            if type(v) is bool:
                return f'(.bool {"true" if v else "false"})'
            if type(v) is str:
                return f'(.str {lean_s(v)})'
            fail(e, 'unsupported constant')
        if isinstance(e, ast.Name):
            if not isinstance(e.ctx, ast.Load):
                fail(e, 'unsupported use of a name')
            if e.id in env:
                return env[e.id]
            fail(e, 'unsupported name (a local that may be unbound here, `self` / `el` / the value variable as a value, or a global)')
        if isinstance(e, ast.Attribute):
            if is_name(e.value, self.self_) and e.attr == 'is_xml' and isinstance(e.ctx, ast.Load):
                return '(pyIsXml c)'
            fail(e, 'unsupported attribute access')
        if isinstance(e, ast.UnaryOp) and isinstance(e.op, ast.Not):
            return f'(pyNot {self.ex(e.operand, env)})'
        if isinstance(e, ast.BoolOp):
            op = 'pyAnd' if isinstance(e.op, ast.And) else 'pyOr'
            vals = [self.ex(v, env) for v in e.values]
            out = vals[-1]
            for v in reversed(vals[:-1]):
                out = f'({op} {v} {out})'
            return out
        if isinstance(e, ast.IfExp):
            return f'(PV.ite {self.ex(e.test, env)} {self.ex(e.body, env)} {self.ex(e.orelse, env)})'
        if isinstance(e, ast.Compare):
            if len(e.ops) != 1:
                fail(e, 'chained comparison')
            op, l, r = e.ops[0], e.left, e.comparators[0]
            if isinstance(op, (ast.Is, ast.IsNot)):
                if not (isinstance(r, ast.Constant) and r.value is None):
                    fail(e, '`is` with something other than None')
                return f'({"pyIsNone" if isinstance(op, ast.Is) else "pyIsNotNone"} {self.ex(l, env)})'
            if isinstance(op, (ast.Eq, ast.NotEq)):
                return f'({"pyEq" if isinstance(op, ast.Eq) else "pyNe"} {self.ex(l, env)} {self.ex(r, env)})'
            fail(e, 'unsupported comparison')
        if isinstance(e, ast.Call):
            return self.call(e, env)
        fail(e, 'unsupported expression')

    def call(self, e, env):
        if e.keywords or any(isinstance(a, ast.Starred) for a in e.args):
            fail(e, 'keyword / starred arguments')
        f = e.func
        # util.lower(x)
        if isinstance(f, ast.Attribute) and isinstance(f.value, ast.Name) and f.value.id == 'util' and f.attr == 'lower':
            import types
            util = getattr(self.m, 'util', None)
            real = sys.modules.get(self.m.__package__ + '.util')
            if 'util' in self.assigned or 'util' in self.params or not isinstance(util, types.ModuleType) \
                    or util is not real or len(e.args) != 1:
                fail(e, '`util.lower` is not soupsieve.util.lower / wrong arity')
            return f'(pyLower {self.ex(e.args[0], env)})'
        # self.namespaces.get(x)
        if isinstance(f, ast.Attribute) and f.attr == 'get' and isinstance(f.value, ast.Attribute) \
                and is_name(f.value.value, self.self_) and f.value.attr == 'namespaces':
            if len(e.args) != 1:
                fail(e, '`self.namespaces.get` needs exactly one argument')
            return f'(pyNsGet c {self.ex(e.args[0], env)})'
        # self.supports_namespaces()
        if isinstance(f, ast.Attribute) and is_name(f.value, self.self_) and f.attr == 'supports_namespaces':
            if e.args:
                fail(e, '`self.supports_namespaces` takes no argument')
            return '(pySupportsNs c)'
        fail(e, 'unsupported call')

    # ------------------------------------------------------------ prologue
    def pre(self, stmts, env, ind, k):
        """Statements in front of the first loop, continuation-passing: `k(env)` is what falling off the end means."""
        pad = '  ' * ind
        if not stmts:
            return pad + k(env)
        st, rest = stmts[0], stmts[1:]
        if isinstance(st, ast.Return):
            if st.value is not None:
                fail(st, '`return` with a value in a generator frame')
            if rest:
                fail(rest[0], 'statement after `return`')
            return pad + '.ret'
        if isinstance(st, ast.Assign):
            if not (len(st.targets) == 1 and isinstance(st.targets[0], ast.Name)):
                fail(st, 'unsupported assignment')
            val = self.ex(st.value, env)
            env = dict(env)
            env[st.targets[0].id] = self.slot(st.targets[0].id)
            return f'{pad}let {env[st.targets[0].id]} : PV := {val}\n' + self.pre(rest, env, ind, k)
        if isinstance(st, ast.If):
            a = self.pre(list(st.body) + rest, env, ind + 2, k)
            b = self.pre(list(st.orelse) + rest, env, ind + 2, k)
            return f'{pad}Pre.ite {self.ex(st.test, env)}\n{pad}  (\n{a})\n{pad}  (\n{b})'
        fail(st, 'unsupported statement in front of the loop')

    # ------------------------------------------------------------ loops
    def loop_header(self, fo):
        if not isinstance(fo, ast.For) or fo.orelse:
            fail(fo, 'expected `for k, v in self.iter_attributes(el):` without `else`')
        t = fo.target
        if not (isinstance(t, ast.Tuple) and len(t.elts) == 2 and all(isinstance(x, ast.Name) for x in t.elts)
                and t.elts[0].id != t.elts[1].id):
            fail(fo, 'the loop target is not `k, v`')
        it = fo.iter
        if not (isinstance(it, ast.Call) and not it.keywords and len(it.args) == 1 and is_name(it.args[0], self.el)
                and isinstance(it.func, ast.Attribute) and is_name(it.func.value, self.self_)
                and it.func.attr == 'iter_attributes'):
            fail(fo, 'the loop does not run over `self.iter_attributes(el)`')
        return t.elts[0].id, t.elts[1].id

    def stores(self, node, but=None):
        return [n for n in ast.walk(node) if isinstance(n, ast.Name) and isinstance(n.ctx, ast.Store) and n is not but]

    def is_yield_v(self, st, v):
        if isinstance(st, ast.Expr) and isinstance(st.value, ast.Yield):
            if not is_name(st.value.value, v):
                fail(st, 'a `yield` that does not yield the loop\'s value variable')
            return True
        return False

    def inner(self, stmts, env, v):
        """Statements of an `if …:` block in front of its final `continue`: nothing, `yield v`, or `if T: yield v`."""
        if not stmts:
            return '(.bool false)'
        if len(stmts) == 1 and self.is_yield_v(stmts[0], v):
            return '(.bool true)'
        if len(stmts) == 1 and isinstance(stmts[0], ast.If) and not stmts[0].orelse and len(stmts[0].body) == 1 \
                and self.is_yield_v(stmts[0].body[0], v):
            return f'(PV.ite {self.ex(stmts[0].test, env)} (.bool true) (.bool false))'
        fail(stmts[0], 'unsupported block in the loop (expected `[yield v | if T: yield v] continue`)')

    def iteration(self, stmts, env, k, v, ind):
        pad = '  ' * ind
        if not stmts:
            return pad + '(.bool false)'
        st, rest = stmts[0], stmts[1:]
        if self.is_yield_v(st, v):
            if rest:
                fail(rest[0], 'statement after the final `yield`')
            return pad + '(.bool true)'
        if isinstance(st, ast.Continue):
            if rest:
                fail(rest[0], 'statement after `continue`')
            return pad + '(.bool false)'
        if isinstance(st, ast.Assign):
            t = st.targets[0] if len(st.targets) == 1 else None
            c = st.value
            if not (isinstance(t, ast.Tuple) and len(t.elts) == 2 and all(isinstance(x, ast.Name) for x in t.elts)
                    and t.elts[0].id != t.elts[1].id and not ({t.elts[0].id, t.elts[1].id} & {k, v})
                    and isinstance(c, ast.Call) and not c.keywords and len(c.args) == 2 and is_name(c.args[0], self.el)
                    and is_name(c.args[1], k) and isinstance(c.func, ast.Attribute) and is_name(c.func.value, self.self_)
                    and c.func.attr == 'split_namespace'):
                fail(st, 'the only assignment supported in the loop is `a, b = self.split_namespace(el, k)`')
            env = dict(env)
            a, b = t.elts[0].id, t.elts[1].id
            env[a] = self.slot(a)
            env[b] = self.slot(b)
            return (f'{pad}let {env[a]} : PV := sp.1\n{pad}let {env[b]} : PV := sp.2\n'
                    + self.iteration(rest, env, k, v, ind))
        if isinstance(st, ast.If):
            if st.orelse:
                fail(st, '`else` / `elif` in the loop')
            if not st.body or not isinstance(st.body[-1], ast.Continue):
                fail(st, 'an `if` block in the loop must end with `continue`')
            val = self.inner(list(st.body[:-1]), env, v)
            return (f'{pad}PV.ite {self.ex(st.test, env)} {val} (\n'
                    + self.iteration(rest, env, k, v, ind + 1) + ')')
        fail(st, 'unsupported statement in the loop')

    def free_locals(self, fo, k, v):
        """Locals of the function the loop reads without binding them (in the loop) first — by name, conservatively:
        every loaded name that is assigned somewhere in the function but not by this loop."""
        own = {n.id for n in self.stores(fo)}
        return sorted({n.id for n in ast.walk(fo) if isinstance(n, ast.Name) and isinstance(n.ctx, ast.Load)
                       and n.id in self.assigned and n.id not in own})

    def function(self):
        body = strip_doc(list(self.fn.body))
        if len(body) != 1 or not isinstance(body[0], ast.If):
            fail(self.fn, 'the body is not one `if … else …` statement')
        top = body[0]
        if not top.body or not isinstance(top.body[-1], ast.For) or len(top.orelse) != 1 \
                or not isinstance(top.orelse[0], ast.For):
            fail(top, 'expected `if …: <prologue> for … else: for …`')
        test = self.ex(top.test, {})
        loop1, loop2 = top.body[-1], top.orelse[0]
        k1, v1 = self.loop_header(loop1)
        k2, v2 = self.loop_header(loop2)
        for st in top.body[:-1]:
            for n in ast.walk(st):
                if isinstance(n, (ast.For, ast.Yield, ast.Continue, ast.Break)):
                    fail(n, 'loop / yield in front of the loop')
        free1 = self.free_locals(loop1, k1, v1)
        free2 = self.free_locals(loop2, k2, v2)
        if len(free1) != 1 or free2:
            fail(top, f'the first loop must read exactly one local bound in front of it, the second none (found {free1}, {free2})')
        nsvar = free1[0]
        base = {self.attr: 'attr', self.prefix: 'pfx'}

        def k(env):
            if nsvar not in env:
                raise Unsupported(f'{FUNC}: local `{nsvar}` may be unbound when the loop is reached')
            return f'.go {env[nsvar]}'
        pre = self.pre(list(top.body[:-1]), dict(base), 1, k)
        env1 = dict(base)
        env1[nsvar] = 'ns'
        env1[k1] = 'k'
        it1 = self.iteration(list(loop1.body), env1, k1, v1, 1)
        env2 = dict(base)
        env2[k2] = 'k'
        it2 = self.iteration(list(loop2.body), env2, k2, v2, 1)
        return test, pre, it1, it2


def translate(src_path=SRC):
    with open(src_path, encoding='utf-8') as f:
        text = f.read()
    tree = ast.parse(text)
    fn = find_method(tree, FUNC)
    from soupsieve import css_match as cm
    if not os.path.samefile(cm.__file__, src_path):
        raise Unsupported(f'the imported soupsieve.css_match ({cm.__file__}) is not {src_path}')
    test, pre, it1, it2 = Translator(fn, cm).function()
    lines = [
        '/- GENERATED by gen/gen_py_attrname.py from the source text of `CSSMatch.match_attribute_name`',
        '   (soupsieve/css_match.py). Do not edit. -/',
        'import SoupVerif.Model.AttrNameDyn',
        'set_option linter.unusedVariables false',
        'namespace SoupVerif.Gen.PyAttrName',
        'open SoupVerif SoupVerif.PyMatchSel SoupVerif.PyAttrName',
        '',
        '/-- the statements in front of the first loop: bare `return` / the value of the local the loop reads -/',
        'def prefixLookup (c : Ctx) (attr pfx : PV) : Pre :=',
        pre,
        '',
        '/-- first loop, one iteration: is the value of the attribute with key `k` and `split_namespace` result `sp` yielded -/',
        'def designates (c : Ctx) (attr pfx ns k : PV) (sp : PV × PV) : PV :=',
        it1,
        '',
        '/-- second loop, one iteration -/',
        'def designatesPlain (c : Ctx) (attr pfx k : PV) (sp : PV × PV) : PV :=',
        it2,
        '',
        '/-- the frame: `if <test>: <prologue> for k, v in self.iter_attributes(el): … else: for k, v in …` -/',
        'def match_attribute_name (c : Ctx) (e : Elem) (attr pfx : PV) : Yields :=',
        f'  Yields.ite {test}',
        '    (Pre.run (prefixLookup c attr pfx) fun ns =>',
        '      pyYieldLoop (fun x => designates c attr pfx ns (pyKey x) (pySplitNamespace x)) (pyIterAttributes e))',
        '    (pyYieldLoop (fun x => designatesPlain c attr pfx (pyKey x) (pySplitNamespace x)) (pyIterAttributes e))',
        '',
        'end SoupVerif.Gen.PyAttrName',
    ]
    return '\n'.join(lines) + '\n'


def main(dest):
    text = translate()
    old = open(dest).read() if os.path.exists(dest) else None
    if old != text:
        with open(dest, 'w') as f:
            f.write(text)
    return 'prologue, 2 loop bodies, frame'


if __name__ == '__main__':
    print(main(sys.argv[1]))
