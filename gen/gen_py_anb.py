"""Regenerate lean/SoupVerif/Generated/PyAnB.lean from the *source text* (ast) of
$SOUPVERIF_REPO/soupsieve/css_parser.py: a structural translation of the An+B block of
`CSSParser.parse_pseudo_nth` — from `if content == 'even':` to the two `int(..., 10)` calls, i.e. how the text of the
`nth_child` / `nth_type` group becomes the integers `(a, b)` and the flag `var` of a `ct.SelectorNth` — into one Lean
definition

    SoupVerif.Gen.PyAnB.anb (content : Str) (groups : String → Option Str) : PyStr.M (Int × Int × Bool)

over the named groups of a `RE_NTH` match (`groups name` = `nth_parts.group(name)`; the match itself is run by the
regex-engine model on the regenerated `Gen.cp_RE_NTH`, named here as `regex` / `regexGroups`).  Python's operations
are those of lean/SoupVerif/Model/PyStr.lean (hand-written, trusted); operations that can raise are sequenced in the
`Except PyStr.Err` monad in Python's evaluation order.

THE FRAME that is checked (anything else RAISES `Unsupported`; gen_all reports FAILED, the proof side is broken):

  class CSSParser:  def parse_pseudo_nth(self, ...):
      ...                                                 (statements that do not bind any name of the block)
      C = util.lower(<one argument>)                      (C: the `content` parameter of the emitted definition)
      if C == 'even': ... elif C == 'odd': ... else: ...  (THE BLOCK: the statement right after it)
      ...                                                 (the rest reads exactly three of the block's locals, and only
                                                           as the first three positional arguments `(A, V, B)` of calls
                                                           `ct.SelectorNth(A, V, B, ...)`, the same three everywhere;
                                                           the result of `anb` is `(A, B, V)`)

SUPPORTED PYTHON inside the block:

  statement  `x = e`, `x: T = e`, `x += e`                          -> `let x := e` / `let x ← e`
             `M = RE_X.match(C)` / `M = cast(T, RE_X.match(C))`      (once; RE_X a module global bound exactly once to
                                                                      `re.compile(...)`; `M` may only be used as
                                                                      `M.group('<name>')`)
             `if c: A (elif ...)* (else: B)?`                        -> `let (outs) ← if c then do A; pure outs else do B; pure outs`
                                                                      (outs: the locals assigned inside that are read
                                                                      later; each must be bound on every path, with one type)
             `try: A  except ValueError: raise SelectorSyntaxError(...) from None`
                                                                     -> `PyStr.exceptValueError (do A; pure outs) .selectorSyntaxError`
  expression str / int / bool literals, locals, `M.group('name')` (`str | None`), `cast(T, e)` (= e),
             `a == b` / `a != b` (str, str | None, int), `s.startswith('lit')`, `s.endswith('lit')`,
             `s[i:j]` (optional integer-literal bounds, no step), `s + t` (str + str, str + (str | None): TypeError on
             None, int + int), `int(s, 10)` (s a str), `a if c else b` (branches of one type, nothing that can raise
             inside), and in tests: truthiness of str, str | None, int, bool; `and` / `or` / `not` (only the first
             operand may contain an operation that can raise).
  types      inferred (`Str`, `Option Str`, `Bool`, `Int`), never read from annotations.

The output is a function of the AST only: comments, docstrings, annotations, blank lines, `cast(...)` wrappers do not
reach it; the Python names of locals reach it only as bound variable names (`v_<name>`).
"""
import ast
import os
import sys

REPO = os.environ.get('SOUPVERIF_REPO', '/repo')
SRC = os.path.join(REPO, 'soupsieve', 'css_parser.py')
CLASS = 'CSSParser'
METHOD = 'parse_pseudo_nth'
RECORD = ('ct', 'SelectorNth')

STR, OPT, BOOL, INT, MATCH = 'Str', 'Option Str', 'Bool', 'Int', '<match>'


class Unsupported(Exception):
    pass


def bad(node, why):
    raise Unsupported(f'line {getattr(node, "lineno", "?")}: {why}: {ast.dump(node)[:200]}')


def lstr(x):
    if not (x.isascii() and x.isprintable()) or '"' in x or '\\' in x:
        raise Unsupported(f'string {x!r} cannot be emitted')
    return '"' + x + '"'


def int_lit(v):
    return str(v) if v >= 0 else f'({v})'


def loads(nodes):
    return {n.id for st in nodes for n in ast.walk(st) if isinstance(n, ast.Name) and isinstance(n.ctx, ast.Load)}


def stores(nodes):
    out = []
    for st in nodes:
        for n in ast.walk(st):
            if isinstance(n, ast.Name) and isinstance(n.ctx, ast.Store) and n.id not in out:
                out.append(n.id)
    return out


def module_bindings(tree, name):
    n = 0
    for node in ast.walk(tree):
        if isinstance(node, ast.Name) and node.id == name and not isinstance(node.ctx, ast.Load):
            n += 1
        elif isinstance(node, (ast.Global, ast.Nonlocal)) and name in node.names:
            n += 1
        elif isinstance(node, (ast.FunctionDef, ast.AsyncFunctionDef, ast.ClassDef)) and node.name == name:
            n += 1
        elif isinstance(node, ast.alias) and (node.asname or node.name.split('.')[0]) == name:
            n += 1
        elif isinstance(node, ast.arg) and node.arg == name:
            n += 1
        elif isinstance(node, ast.ExceptHandler) and node.name == name:
            n += 1
    return n


class Block:
    def __init__(self, tree, content):
        self.tree = tree
        self.content = content
        self.tmp = 0
        self.regex = None
        self.mvar = None
        self.groups = []

    def var(self, name, node):
        if not (name.isascii() and name.isidentifier()):
            bad(node, f'identifier {name!r}')
        return 'v_' + name

    def fresh(self):
        self.tmp += 1
        return f't{self.tmp}'

    # ---- expressions: -> (binds, term, type); binds = [(name, type, monadic term)] in evaluation order ---------
    def expr(self, e, env):
        if isinstance(e, ast.Constant):
            if type(e.value) is bool:
                return [], ('true' if e.value else 'false'), BOOL
            if type(e.value) is int:
                return [], int_lit(e.value), INT
            if type(e.value) is str:
                return [], f'{lstr(e.value)}.toStr', STR
            bad(e, 'constant of unsupported type')
        if isinstance(e, ast.Name):
            if not isinstance(e.ctx, ast.Load) or e.id not in env:
                bad(e, f'{e.id!r} is not a local of the block that is bound on every path to here')
            if env[e.id] == MATCH:
                bad(e, 'the match object may only be used as M.group(<name>)')
            return [], self.var(e.id, e), env[e.id]
        if isinstance(e, ast.Call):
            return self.call(e, env)
        if isinstance(e, ast.Compare):
            if len(e.ops) != 1 or not isinstance(e.ops[0], (ast.Eq, ast.NotEq)):
                bad(e, 'only a single == / != is supported')
            b1, a, ta = self.expr(e.left, env)
            b2, b, tb = self.expr(e.comparators[0], env)
            if (ta, tb) in ((STR, STR), (OPT, OPT), (INT, INT), (BOOL, BOOL)):
                t = f'({a} == {b})'
            elif (ta, tb) == (OPT, STR):
                t = f'({a} == some {b})'
            elif (ta, tb) == (STR, OPT):
                t = f'(some {a} == {b})'
            else:
                bad(e, 'comparison of these types')
            if isinstance(e.ops[0], ast.NotEq):
                t = f'(!{t})'
            return b1 + b2, t, BOOL
        if isinstance(e, ast.IfExp):
            bc, c = self.cond(e.test, env)
            b1, a, ta = self.expr(e.body, env)
            b2, b, tb = self.expr(e.orelse, env)
            if b1 or b2 or ta != tb:
                bad(e, 'conditional expression: a branch can raise or the branches differ in type')
            return bc, f'(if {c} then {a} else {b})', ta
        if isinstance(e, ast.BinOp) and isinstance(e.op, ast.Add):
            b1, a, ta = self.expr(e.left, env)
            b2, b, tb = self.expr(e.right, env)
            if (ta, tb) == (STR, STR):
                return b1 + b2, f'({a} ++ {b})', STR
            if (ta, tb) == (INT, INT):
                return b1 + b2, f'({a} + {b})', INT
            if (ta, tb) == (STR, OPT):
                t = self.fresh()
                return b1 + b2 + [(t, STR, f'PyStr.concat {a} {b}')], t, STR
            bad(e, '+ on these types')
        if isinstance(e, ast.Subscript):
            b1, a, ta = self.expr(e.value, env)
            if ta not in (STR, OPT) or not isinstance(e.slice, ast.Slice) or e.slice.step is not None:
                bad(e, 'only s[i:j] on a str is supported')
            lo, hi = self.bound(e.slice.lower), self.bound(e.slice.upper)
            recv = a if ta == OPT else f'(some {a})'
            t = self.fresh()
            return b1 + [(t, STR, f'PyStr.slice {recv} {lo} {hi}')], t, STR
        bad(e, 'unsupported expression')

    def bound(self, e):
        if e is None:
            return 'none'
        v = None
        if isinstance(e, ast.Constant) and type(e.value) is int:
            v = e.value
        elif isinstance(e, ast.UnaryOp) and isinstance(e.op, ast.USub) and isinstance(e.operand, ast.Constant) \
                and type(e.operand.value) is int:
            v = -e.operand.value
        if v is None:
            bad(e, 'slice bound is not an integer literal')
        return f'(some {int_lit(v)})'

    def call(self, e, env):
        if e.keywords:
            bad(e, 'keyword arguments')
        f = e.func
        if isinstance(f, ast.Name):
            if f.id in env or module_bindings(self.tree, f.id) != (1 if f.id == 'cast' else 0):
                bad(e, f'{f.id!r} is not the builtin / typing function it looks like')
            if f.id == 'cast' and len(e.args) == 2:
                self.check_cast()
                return self.expr(e.args[1], env)
            if f.id == 'int' and len(e.args) == 2 and isinstance(e.args[1], ast.Constant) \
                    and type(e.args[1].value) is int and e.args[1].value == 10:
                b, a, ta = self.expr(e.args[0], env)
                if ta != STR:
                    bad(e, 'int(x, 10) of something that is not known to be a str')
                t = self.fresh()
                return b + [(t, INT, f'PyStr.int10 {a}')], t, INT
            bad(e, 'unsupported call')
        if isinstance(f, ast.Attribute):
            if isinstance(f.value, ast.Name) and env.get(f.value.id) == MATCH:
                if f.attr != 'group' or len(e.args) != 1 or not (isinstance(e.args[0], ast.Constant)
                                                                  and type(e.args[0].value) is str):
                    bad(e, 'expected M.group(<string literal>)')
                g = e.args[0].value
                if g not in self.groups:
                    self.groups.append(g)
                return [], f'(groups {lstr(g)})', OPT
            if f.attr in ('startswith', 'endswith'):
                if len(e.args) != 1 or not (isinstance(e.args[0], ast.Constant) and type(e.args[0].value) is str):
                    bad(e, f'{f.attr} with something else than one string literal')
                b, a, ta = self.expr(f.value, env)
                if ta not in (STR, OPT):
                    bad(e, f'{f.attr} on a non-str')
                recv = a if ta == OPT else f'(some {a})'
                t = self.fresh()
                return b + [(t, BOOL, f'PyStr.{f.attr} {recv} {lstr(e.args[0].value)}.toStr')], t, BOOL
        bad(e, 'unsupported call')

    def check_cast(self):
        ok = False
        for st in self.tree.body:
            if isinstance(st, ast.ImportFrom) and st.module == 'typing' and st.level == 0:
                ok = ok or any(a.name == 'cast' and a.asname in (None, 'cast') for a in st.names)
        if not ok:
            raise Unsupported('`cast` is not `typing.cast`')

    def cond(self, e, env):
        """truth value of `e` -> (binds, Bool term)"""
        if isinstance(e, ast.BoolOp):
            op = '&&' if isinstance(e.op, ast.And) else '||'
            parts = [self.cond(v, env) for v in e.values]
            if any(b for b, _ in parts[1:]):
                bad(e, 'an operand after the first of and/or can raise (short-circuit evaluation is not supported for it)')
            out = parts[-1][1]
            for _, t in reversed(parts[:-1]):
                out = f'({t} {op} {out})'
            return parts[0][0], out
        if isinstance(e, ast.UnaryOp) and isinstance(e.op, ast.Not):
            b, t = self.cond(e.operand, env)
            return b, f'(!{t})'
        b, t, ty = self.expr(e, env)
        if ty == BOOL:
            return b, t
        if ty == OPT:
            return b, f'(PyStr.truthy {t})'
        if ty == STR:
            return b, f'(PyStr.truthyStr {t})'
        if ty == INT:
            return b, f'({t} != 0)'
        bad(e, 'truth value of this type')

    # ---- statements ----------------------------------------------------------------------------------------
    @staticmethod
    def bind_lines(binds, pad):
        return [f'{pad}let {n} : {ty} ← {term}' for n, ty, term in binds]

    def pure(self, outs, env, node):
        for n in outs:
            if n not in env or env[n] == MATCH:
                bad(node, f'local {n!r} is read later but not bound on every path')
        names = [self.var(n, node) for n in outs]
        return names[0] if len(names) == 1 else '(' + ', '.join(names) + ')'

    def block(self, stmts, env, live, ind):
        """-> (lines, env at the end).  `live`: names read after this block."""
        pad = '  ' * ind
        lines = []
        env = dict(env)
        for k, st in enumerate(stmts):
            rest = stmts[k + 1:]
            live_here = live | loads(rest)
            if isinstance(st, (ast.Assign, ast.AnnAssign, ast.AugAssign)):
                if isinstance(st, ast.Assign):
                    if len(st.targets) != 1:
                        bad(st, 'multiple assignment targets')
                    target, value = st.targets[0], st.value
                elif isinstance(st, ast.AnnAssign):
                    target, value = st.target, st.value
                    if value is None:
                        bad(st, 'annotation without a value')
                else:
                    target = st.target
                    if not isinstance(st.op, ast.Add) or not isinstance(target, ast.Name):
                        bad(st, 'only `x += e` is supported')
                    value = ast.BinOp(left=ast.Name(id=target.id, ctx=ast.Load()), op=ast.Add(), right=st.value)
                    ast.copy_location(value, st)
                    ast.copy_location(value.left, st)
                if not isinstance(target, ast.Name):
                    bad(st, 'assignment target is not a plain name')
                if target.id == self.content:
                    bad(st, 'the content variable is assigned inside the block')
                m = self.match_call(value, env)
                if m is not None:
                    if self.mvar is not None or not isinstance(st, (ast.Assign, ast.AnnAssign)):
                        bad(st, 'a second regex match')
                    self.mvar, self.regex = target.id, m
                    env[target.id] = MATCH
                    continue
                if target.id == self.mvar:
                    bad(st, 'the match variable is reassigned')
                b, t, ty = self.expr(value, env)
                lines += self.bind_lines(b, pad)
                lines.append(f'{pad}let {self.var(target.id, target)} : {ty} := {t}')
                env[target.id] = ty
            elif isinstance(st, ast.If):
                outs = [n for n in stores([st]) if n in live_here]
                if not outs:
                    bad(st, '`if` statement without an effect that is read later')
                b, c = self.cond(st.test, env)
                lines += self.bind_lines(b, pad)
                la, ea = self.block(st.body, env, live_here, ind + 2)
                lb, eb = self.block(st.orelse, env, live_here, ind + 2)
                pa, pb = self.pure(outs, ea, st), self.pure(outs, eb, st)
                for n in outs:
                    if ea[n] != eb[n]:
                        bad(st, f'local {n!r} has different types on different paths')
                    env[n] = ea[n]
                ty = ' × '.join(env[n] for n in outs)
                lines.append(f'{pad}let {pa} ← ((if {c} then do')
                lines += la
                lines.append(f'{pad}    pure {pa}')
                lines.append(f'{pad}  else do')
                lines += lb
                lines.append(f'{pad}    pure {pb}) : PyStr.M ({ty}))')
            elif isinstance(st, ast.Try):
                if st.orelse or st.finalbody or len(st.handlers) != 1:
                    bad(st, 'try with else / finally / several handlers')
                h = st.handlers[0]
                if not (isinstance(h.type, ast.Name) and h.type.id == 'ValueError' and h.name is None
                        and 'ValueError' not in env and module_bindings(self.tree, 'ValueError') == 0):
                    bad(st, 'expected `except ValueError:`')
                if not (len(h.body) == 1 and isinstance(h.body[0], ast.Raise) and isinstance(h.body[0].exc, ast.Call)
                        and isinstance(h.body[0].exc.func, ast.Name) and h.body[0].exc.func.id == 'SelectorSyntaxError'
                        and isinstance(h.body[0].cause, ast.Constant) and h.body[0].cause.value is None):
                    bad(st, 'expected `raise SelectorSyntaxError(...) from None` as the handler')
                outs = [n for n in stores(st.body) if n in live_here]
                if not outs or set(stores(h.body)):
                    bad(st, '`try` without an effect that is read later')
                la, ea = self.block(st.body, env, live_here, ind + 2)
                pa = self.pure(outs, ea, st)
                for n in outs:
                    env[n] = ea[n]
                ty = ' × '.join(env[n] for n in outs)
                lines.append(f'{pad}let {pa} ← PyStr.exceptValueError ((do')
                lines += la
                lines.append(f'{pad}    pure {pa}) : PyStr.M ({ty})) PyStr.Err.selectorSyntaxError')
            else:
                bad(st, 'unsupported statement')
        return lines, env

    def match_call(self, e, env):
        """`RE_X.match(C)` / `cast(T, RE_X.match(C))` -> 'RE_X' (else None)"""
        if isinstance(e, ast.Call) and isinstance(e.func, ast.Name) and e.func.id == 'cast' and len(e.args) == 2 \
                and not e.keywords and 'cast' not in env and module_bindings(self.tree, 'cast') == 1:
            inner = self.match_call(e.args[1], env)
            if inner is not None:
                self.check_cast()
            return inner
        if not (isinstance(e, ast.Call) and isinstance(e.func, ast.Attribute) and e.func.attr == 'match'
                and isinstance(e.func.value, ast.Name) and e.func.value.id not in env):
            return None
        name = e.func.value.id
        if e.keywords or len(e.args) != 1 or not (isinstance(e.args[0], ast.Name) and e.args[0].id == self.content):
            bad(e, 'expected RE_X.match(<content>)')
        found = [st.value for st in self.tree.body
                 if isinstance(st, ast.Assign) and len(st.targets) == 1 and isinstance(st.targets[0], ast.Name)
                 and st.targets[0].id == name]
        ok = (len(found) == 1 and module_bindings(self.tree, name) == 1 and isinstance(found[0], ast.Call)
              and isinstance(found[0].func, ast.Attribute) and found[0].func.attr == 'compile'
              and isinstance(found[0].func.value, ast.Name) and found[0].func.value.id == 're')
        if not ok or not (name.isascii() and name.isidentifier()):
            bad(e, f'{name!r} is not a module global bound exactly once to re.compile(...)')
        return name


def find_one(body, kind, name):
    found = [n for n in body if isinstance(n, kind) and n.name == name]
    if len(found) != 1:
        raise Unsupported(f'{name} not found exactly once')
    return found[0]


def generate(src_text):
    tree = ast.parse(src_text)
    fn = find_one(find_one(tree.body, ast.ClassDef, CLASS).body, ast.FunctionDef, METHOD)
    for n in ast.walk(fn):
        if isinstance(n, (ast.Global, ast.Nonlocal, ast.Lambda, ast.FunctionDef, ast.AsyncFunctionDef, ast.ClassDef,
                          ast.While, ast.For, ast.With, ast.Delete)) and n is not fn:
            bad(n, 'nested scope / loop / global declaration / del in the function')
    body = list(fn.body)
    # the block: the first `if` whose test compares a name with the literal 'even'
    idx = [k for k, st in enumerate(body)
           if isinstance(st, ast.If) and isinstance(st.test, ast.Compare) and isinstance(st.test.left, ast.Name)
           and len(st.test.comparators) == 1 and isinstance(st.test.comparators[0], ast.Constant)
           and st.test.comparators[0].value == 'even']
    if len(idx) != 1 or idx[0] == 0:
        raise Unsupported("the `if <content> == 'even':` statement was not found exactly once at the top level of the function")
    k = idx[0]
    blk, before, after = body[k], body[:k], body[k + 1:]
    content = blk.test.left.id
    prev = before[-1]
    ok = (isinstance(prev, (ast.Assign, ast.AnnAssign)) and isinstance(getattr(prev, 'target', None) or prev.targets[0], ast.Name)
          and (getattr(prev, 'target', None) or prev.targets[0]).id == content
          and (not isinstance(prev, ast.Assign) or len(prev.targets) == 1)
          and isinstance(prev.value, ast.Call) and isinstance(prev.value.func, ast.Attribute)
          and prev.value.func.attr == 'lower' and isinstance(prev.value.func.value, ast.Name)
          and prev.value.func.value.id == 'util' and len(prev.value.args) == 1 and not prev.value.keywords)
    if not ok:
        bad(prev, 'the statement before the block is not `<content> = util.lower(<arg>)`')
    assigned = stores([blk])
    if content in assigned or content in stores(after) or content in stores(before[:-1]) \
            or content in {a.arg for a in fn.args.args}:
        bad(blk, 'the content variable is bound more than once')
    clash = [n for n in assigned if n in stores(before) or n in stores(after) or n in {a.arg for a in fn.args.args}]
    if clash:
        bad(blk, f'locals of the block are also bound outside it: {clash}')
    # what the rest of the function reads of the block: exactly the (A, V, B) of every ct.SelectorNth(A, V, B, ...)
    triples, arg_nodes = set(), set()
    for n in (x for st in after for x in ast.walk(st)):
        if isinstance(n, ast.Call) and isinstance(n.func, ast.Attribute) and n.func.attr == RECORD[1] \
                and isinstance(n.func.value, ast.Name) and n.func.value.id == RECORD[0]:
            if n.keywords or len(n.args) < 3 or not all(isinstance(a, ast.Name) for a in n.args[:3]):
                bad(n, 'expected ct.SelectorNth(A, V, B, ...) with three plain names')
            triples.add(tuple(a.id for a in n.args[:3]))
            arg_nodes.update(id(a) for a in n.args[:3])
    if len(triples) != 1:
        raise Unsupported(f'the ct.SelectorNth calls after the block do not all take the same (a, var, b): {sorted(triples)}')
    (pa, pv, pb), = triples
    if len({pa, pv, pb}) != 3 or any(x not in assigned for x in (pa, pv, pb)):
        raise Unsupported(f'(a, var, b) = {(pa, pv, pb)} are not three distinct locals of the block')
    for n in (x for st in after for x in ast.walk(st)):
        if isinstance(n, ast.Name) and n.id in assigned and id(n) not in arg_nodes:
            bad(n, 'a local of the block is used after it other than as ct.SelectorNth(A, V, B, ...)')
    outs = [pa, pb, pv]
    b = Block(tree, content)
    lines, env = b.block([blk], {content: STR}, set(outs), 1)
    if [env.get(n) for n in outs] != [INT, INT, BOOL]:
        raise Unsupported(f'(a, b, var) do not have the types (int, int, bool): {[env.get(n) for n in outs]}')
    if b.regex is None:
        raise Unsupported('the block does not run a regex match')
    out = ['/- GENERATED by gen/gen_py_anb.py from the source text of soupsieve/css_parser.py '
           f'({CLASS}.{METHOD}). Do not edit. -/',
           'import SoupVerif.Model.PyStr',
           'import SoupVerif.Generated.Regexes',
           'namespace SoupVerif.Gen.PyAnB',
           'open SoupVerif',
           '',
           f'/-- the regular expression whose match the block reads: `{b.regex}.match(content)` -/',
           f'def regex : Rx := Gen.cp_{b.regex}',
           f'def regexGroups : List (String × Nat) := Gen.cp_{b.regex}_groups',
           '/-- the groups the block reads, in order of first use -/',
           'def groupsRead : List String := [' + ', '.join(lstr(g) for g in b.groups) + ']',
           '',
           f'/-- the An+B block of `{METHOD}`: `(a, b, var)` of the `ct.SelectorNth(a, var, b, …)` it builds -/',
           f'def anb ({b.var(content, blk)} : Str) (groups : String → Option Str) : PyStr.M (Int × Int × Bool) := do']
    out += lines
    out.append('  pure (' + ', '.join(b.var(n, blk) for n in outs) + ')')
    out.append('')
    out.append('end SoupVerif.Gen.PyAnB')
    return '\n'.join(out) + '\n', (len(lines), b.regex, b.groups)


def main(dest):
    text, info = generate(open(SRC, encoding='utf-8').read())
    old = open(dest).read() if os.path.exists(dest) else None
    if old != text:
        open(dest, 'w').write(text)
    return f'{info[0]} lines from {METHOD}, regex {info[1]}, groups {info[2]}'


if __name__ == '__main__':
    print(main(sys.argv[1]))
