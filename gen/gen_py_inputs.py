"""Regenerate lean/SoupVerif/Generated/PyInputs.lean from the *source text* (ast) of
$SOUPVERIF_REPO/soupsieve/css_match.py: a structural translation of the pure integer functions
`Inputs.validate_day / validate_week / validate_month / validate_year / validate_hour / validate_minutes`
into Lean definitions over `Int` (part A) and of `Inputs._parse_value` into a term of the deep-embedded
branch language of `SoupVerif.Model.PyProg` (part B).

Part A — supported Python (everything else RAISES `Unsupported`, gen_all reports FAILED, the proof side is broken):

  function   `@staticmethod def f(p1, ..., pn): <body>`  (positional parameters only, no defaults; annotations,
             docstring, comments and blank lines are ignored; every parameter is an `int`)
  statement  `x = e` / `x: T = e`     ->  `let x := e`
             `return e`               ->  `e`   (must be the last statement of its block; every path must return)
             `if c: A (elif ...)* (else: B)?`
                 no `return` inside   ->  `let x := if c then (A; x) else (B; x)`   (x: the locals assigned inside,
                                           a tuple if several; each must be bound before the `if` or in every branch)
                 A always returns     ->  `if c then A else (B; rest)`
                 B always returns     ->  `if c then (A; rest) else B`
  expression int literal, True/False, parameter / local / module constant (int or tuple of ints, bound exactly once
             in the module, translated from its assignment), `+ - *`, unary `-`, `a // k`, `a % k` (k a non-zero int
             literal or constant; `Int.fdiv` / `Int.fmod`, which are Python's floor operations for every sign),
             comparisons `== != < <= > >=` on ints incl. chains `a <= b <= c` (middle operands must be names or
             literals), `x in T` / `x not in T` for a tuple constant or tuple display of ints, `and` / `or` / `not` on
             bools, `a or b` on ints (`PyExpr.intOr`), `a if c else b`.
  types      `Int` (Python ints are unbounded integers, and so are Lean's) and `Bool`; inferred, never read from the
             annotations.  A bool is never used as an int nor an int as a truth value except in `int or int`.

Part B — `Inputs._parse_value` must have exactly this shape (anything else RAISES):

  @classmethod
  def _parse_value(cls, itype, value):
      R = None
      if itype == "a":  |  if itype in ("a", "b"):          (then `elif`s of the same form; no `else`)
          M = RE_X.match(value)                               (RE_X: module global bound once to `re.compile(...)`)
          if M:
              v1 = int(M.group('g1'), 10) ... vn = int(M.group('gn'), 10)
              if cls.validate_a(vi, ..) and cls.validate_b(..) ...:     (validators: the functions of part A)
                  R = (w1, ..., wk)
            or  R = (w1, ..., wk)                              (no condition)
            or  R = (float(M.group('g')),)                     (no assignments before it)
      return R

and is emitted as the term `parseValueProg : PyProg.Prog` (one `Branch` per `if`/`elif`, in source order), with the
tables `regexes` (name -> `Gen.cm_<name>`, `Gen.cm_<name>_groups` of Generated/Regexes.lean) and `validators`
(name -> the translated validator).  The names of `R`, `M`, `cls`, `itype`, `value` do not reach the output; the
names of the `vi` do (the proofs evaluate them away).

The output is a function of the AST only (comments, docstrings, annotations and layout do not reach it).
"""
import ast
import os
import sys

REPO = os.environ.get('SOUPVERIF_REPO', '/repo')
SRC = os.path.join(REPO, 'soupsieve', 'css_match.py')
CLASS = 'Inputs'
PARSE = '_parse_value'
FUNCTIONS = ['validate_day', 'validate_week', 'validate_month', 'validate_year', 'validate_hour', 'validate_minutes']

INT, BOOL = 'Int', 'Bool'

# identifiers that may not be used for a Python local / parameter / constant (Lean keywords and the names the
# emitted terms themselves use)
RESERVED = {
    'if', 'then', 'else', 'let', 'fun', 'do', 'in', 'at', 'by', 'def', 'end', 'open', 'from', 'have', 'show', 'with',
    'match', 'where', 'namespace', 'section', 'import', 'theorem', 'example', 'instance', 'structure', 'inductive',
    'class', 'deriving', 'for', 'unless', 'return', 'mut', 'try', 'catch', 'finally', 'then', 'using', 'calc', 'nomatch',
    'Type', 'Prop', 'Sort', 'forall', 'exists', 'true', 'false', 'decide', 'Int', 'Nat', 'Bool', 'List', 'PyExpr',
    'PyProg', 'SoupVerif', 'Gen', 'not', 'and', 'or', 'some', 'none', 'Option', 'String', 'private', 'protected',
    'noncomputable', 'partial', 'unsafe', 'mutual', 'variable', 'universe', 'attribute', 'macro', 'syntax', 'notation',
    'infix', 'infixl', 'infixr', 'prefix', 'postfix', 'set_option', 'extends', 'abbrev', 'axiom', 'opaque', 'sorry',
    'this', 'termination_by', 'decreasing_by', 'suffices', 'obtain', 'rfl', 'id',
}


class Unsupported(Exception):
    pass


def bad(node, why):
    raise Unsupported(f'line {getattr(node, "lineno", "?")}: {why}: {ast.dump(node)[:200]}')


def ident(name, node):
    if not (name.isascii() and name.isidentifier()) or name in RESERVED or name.startswith('_'):
        bad(node, f'identifier {name!r} cannot be used in the emitted Lean')
    return name


def strip_doc(body):
    if body and isinstance(body[0], ast.Expr) and isinstance(body[0].value, ast.Constant) \
            and isinstance(body[0].value.value, str):
        return body[1:]
    return body


def int_lit(v):
    return str(v) if v >= 0 else f'({v})'


class Module:
    """Module-level integer / integer-tuple constants, translated from their (single) assignment."""

    def __init__(self, tree):
        self.tree = tree
        self.used = []          # (name, lean type, lean term) in order of first use
        self.cache = {}

    def bindings(self, name):
        """Every construct of the module that binds `name`, anywhere (fail closed: a local of some other function
        with the same name counts too)."""
        n = 0
        for node in ast.walk(self.tree):
            if isinstance(node, ast.Name) and node.id == name and not isinstance(node.ctx, ast.Load):
                n += 1
            elif isinstance(node, (ast.Global, ast.Nonlocal)) and name in node.names:
                n += 1
            elif isinstance(node, (ast.FunctionDef, ast.AsyncFunctionDef, ast.ClassDef)) and node.name == name:
                n += 1
            elif isinstance(node, ast.alias) and (node.asname or node.name.split('.')[0]) == name:
                n += 1
            elif isinstance(node, ast.arg) and node.arg == name:
                n += 1
            elif isinstance(node, ast.ExceptHandler) and node.name == name:
                n += 1
        return n

    def const_int(self, e):
        if isinstance(e, ast.Constant) and type(e.value) is int:
            return e.value
        if isinstance(e, ast.UnaryOp) and isinstance(e.op, ast.USub) and isinstance(e.operand, ast.Constant) \
                and type(e.operand.value) is int:
            return -e.operand.value
        return None

    def lookup(self, name, node):
        """-> (type, python value) of the module constant `name`; registers it for emission."""
        if name in self.cache:
            return self.cache[name]
        found = []
        for st in self.tree.body:
            if isinstance(st, ast.Assign) and len(st.targets) == 1 and isinstance(st.targets[0], ast.Name) \
                    and st.targets[0].id == name:
                found.append(st.value)
            elif isinstance(st, ast.AnnAssign) and isinstance(st.target, ast.Name) and st.target.id == name \
                    and st.value is not None:
                found.append(st.value)
        if len(found) != 1 or self.bindings(name) != 1:
            bad(node, f'{name!r} is not a module constant bound exactly once')
        v = found[0]
        iv = self.const_int(v)
        if iv is not None:
            res = (INT, iv)
            term = int_lit(iv)
        elif isinstance(v, ast.Tuple) and all(self.const_int(x) is not None for x in v.elts):
            vals = tuple(self.const_int(x) for x in v.elts)
            res = ('List Int', vals)
            term = '[' + ', '.join(int_lit(x) for x in vals) + ']'
        else:
            bad(v, f'module constant {name!r} is neither an int nor a tuple of ints')
        ident(name, node)
        self.cache[name] = res
        self.used.append((name, res[0], term))
        return res


class Fn:
    def __init__(self, module, fn):
        self.m = module
        self.fn = fn
        self.assigned = {n.id for n in ast.walk(fn) if isinstance(n, ast.Name) and isinstance(n.ctx, ast.Store)}
        for n in ast.walk(fn):
            if isinstance(n, ast.Name) and isinstance(n.ctx, ast.Del):
                bad(n, 'del')
        self.ret = None

    # ---- expressions: -> (lean term, type) -------------------------------------------------------------------
    def expr(self, e, env):
        if isinstance(e, ast.Constant):
            if type(e.value) is bool:
                return ('true' if e.value else 'false'), BOOL
            if type(e.value) is int:
                return int_lit(e.value), INT
            bad(e, 'constant of unsupported type')
        if isinstance(e, ast.Name):
            if not isinstance(e.ctx, ast.Load):
                bad(e, 'name context')
            if e.id in env:
                return e.id, env[e.id]
            if e.id in self.assigned:
                bad(e, f'local {e.id!r} may be read before it is assigned')
            ty, _ = self.m.lookup(e.id, e)
            if ty != INT:
                bad(e, 'tuple constant used as a value')
            return e.id, INT
        if isinstance(e, ast.UnaryOp):
            t, ty = self.expr(e.operand, env)
            if isinstance(e.op, ast.USub) and ty == INT:
                return f'(-{t})', INT
            if isinstance(e.op, ast.Not) and ty == BOOL:
                return f'(!{t})', BOOL
            bad(e, 'unary operator / operand type')
        if isinstance(e, ast.BinOp):
            a, ta = self.expr(e.left, env)
            b, tb = self.expr(e.right, env)
            if ta != INT or tb != INT:
                bad(e, 'arithmetic on a non-int')
            if isinstance(e.op, (ast.Add, ast.Sub, ast.Mult)):
                sym = {ast.Add: '+', ast.Sub: '-', ast.Mult: '*'}[type(e.op)]
                return f'({a} {sym} {b})', INT
            if isinstance(e.op, (ast.FloorDiv, ast.Mod)):
                if not self.nonzero_const(e.right, env):
                    bad(e, 'divisor is not a non-zero integer literal / constant')
                return f'({"Int.fdiv" if isinstance(e.op, ast.FloorDiv) else "Int.fmod"} {a} {b})', INT
            bad(e, 'binary operator')
        if isinstance(e, ast.BoolOp):
            parts = [self.expr(v, env) for v in e.values]
            tys = {t for _, t in parts}
            if tys == {BOOL}:
                op = '&&' if isinstance(e.op, ast.And) else '||'
                out = parts[-1][0]
                for t, _ in reversed(parts[:-1]):
                    out = f'({t} {op} {out})'
                return out, BOOL
            if tys == {INT} and isinstance(e.op, ast.Or):
                out = parts[-1][0]
                for t, _ in reversed(parts[:-1]):
                    out = f'(PyExpr.intOr {t} {out})'
                return out, INT
            bad(e, 'and/or on mixed or unsupported operand types')
        if isinstance(e, ast.Compare):
            operands = [e.left] + list(e.comparators)
            for mid in operands[1:-1]:
                if not isinstance(mid, (ast.Name, ast.Constant)):
                    bad(e, 'middle operand of a chained comparison is not a name or literal')
            out = []
            for op, l, r in zip(e.ops, operands, operands[1:]):
                out.append(self.compare(e, op, l, r, env))
            term = out[-1]
            for t in reversed(out[:-1]):
                term = f'({t} && {term})'
            return term, BOOL
        if isinstance(e, ast.IfExp):
            c, tc = self.expr(e.test, env)
            a, ta = self.expr(e.body, env)
            b, tb = self.expr(e.orelse, env)
            if tc != BOOL or ta != tb:
                bad(e, 'conditional expression: test is not a bool or the branches differ in type')
            return f'(if {c} then {a} else {b})', ta
        bad(e, 'unsupported expression')

    def nonzero_const(self, e, env):
        v = self.m.const_int(e)
        if v is None and isinstance(e, ast.Name) and e.id not in env and e.id not in self.assigned:
            ty, v = self.m.lookup(e.id, e)
            if ty != INT:
                return False
        return v is not None and v != 0

    def compare(self, whole, op, l, r, env):
        a, ta = self.expr(l, env)
        if isinstance(op, (ast.In, ast.NotIn)):
            if ta != INT:
                bad(whole, 'membership test of a non-int')
            if isinstance(r, ast.Tuple):
                elts = [self.expr(x, env) for x in r.elts]
                if any(t != INT for _, t in elts):
                    bad(whole, 'tuple display with a non-int element')
                lst = '[' + ', '.join(t for t, _ in elts) + ']'
            elif isinstance(r, ast.Name) and r.id not in env and r.id not in self.assigned:
                ty, _ = self.m.lookup(r.id, r)
                if ty != 'List Int':
                    bad(whole, 'membership test in a non-tuple')
                lst = r.id
            else:
                bad(whole, 'membership test in something that is not a tuple constant')
            t = f'(List.elem {a} {lst})'
            return t if isinstance(op, ast.In) else f'(!{t})'
        b, tb = self.expr(r, env)
        if ta != INT or tb != INT:
            bad(whole, 'comparison of non-ints')
        if isinstance(op, ast.Eq):
            return f'({a} == {b})'
        if isinstance(op, ast.NotEq):
            return f'({a} != {b})'
        rel = {ast.Lt: '<', ast.LtE: '≤', ast.Gt: '>', ast.GtE: '≥'}.get(type(op))
        if rel is None:
            bad(whole, 'comparison operator')
        return f'(decide ({a} {rel} {b}))'

    # ---- statements ------------------------------------------------------------------------------------------
    @staticmethod
    def has_return(stmts):
        return any(isinstance(n, ast.Return) for s in stmts for n in ast.walk(s))

    def always_returns(self, stmts):
        if not stmts:
            return False
        last = stmts[-1]
        if isinstance(last, ast.Return):
            return True
        if isinstance(last, ast.If):
            return self.always_returns(last.body) and self.always_returns(last.orelse)
        return False

    def block(self, stmts, env, tail, ind):
        """Translate `stmts` followed by the continuation `tail(env, ind) -> lean term` (None: the block must return).
        Returns a Lean term (multi-line, `ind` = indentation of its first line)."""
        pad = '  ' * ind
        if not stmts:
            if tail is None:
                bad(self.fn, 'a path through the function does not end in `return`')
            return tail(env, ind)
        st, rest = stmts[0], stmts[1:]
        if isinstance(st, (ast.Assign, ast.AnnAssign)):
            if isinstance(st, ast.Assign):
                if len(st.targets) != 1:
                    bad(st, 'multiple assignment targets')
                target, value = st.targets[0], st.value
            else:
                target, value = st.target, st.value
                if value is None:
                    bad(st, 'annotation without a value')
            if not isinstance(target, ast.Name):
                bad(st, 'assignment target is not a plain name')
            t, ty = self.expr(value, env)
            name = ident(target.id, target)
            if name in env and env[name] != ty:
                bad(st, f'local {name!r} changes its type')
            env2 = dict(env)
            env2[name] = ty
            return f'let {name} : {ty} := {t}\n{pad}' + self.block(rest, env2, tail, ind)
        if isinstance(st, ast.Return):
            if rest:
                bad(rest[0], 'statement after `return`')
            if st.value is None:
                bad(st, '`return` without a value')
            t, ty = self.expr(st.value, env)
            if self.ret not in (None, ty):
                bad(st, 'the function returns values of different types')
            self.ret = ty
            return t
        if isinstance(st, ast.If):
            c, tc = self.expr(st.test, env)
            if tc != BOOL:
                bad(st, 'the test of an `if` is not a bool')
            pad1 = '  ' * (ind + 1)
            if not self.has_return([st]):
                # no return inside: the `if` only updates locals
                names = []
                for n in ast.walk(st):
                    if isinstance(n, ast.Name) and isinstance(n.ctx, ast.Store) and n.id not in names:
                        names.append(n.id)
                if not names:
                    bad(st, '`if` statement without effect')
                out_env = {}

                def fin(env_b, ind_b):
                    for n in names:
                        if n not in env_b:
                            bad(st, f'local {n!r} is not bound on every path through the `if`')
                        if out_env.setdefault(n, env_b[n]) != env_b[n]:
                            bad(st, f'local {n!r} has different types on different paths')
                    return names[0] if len(names) == 1 else '(' + ', '.join(names) + ')'
                a = self.block(st.body, env, fin, ind + 1)
                b = self.block(st.orelse, env, fin, ind + 1)
                env2 = dict(env)
                env2.update(out_env)
                pat = names[0] + ' : ' + out_env[names[0]] if len(names) == 1 else \
                    '(' + ', '.join(names) + ') : ' + ' × '.join(out_env[n] for n in names)
                return (f'let {pat} :=\n{pad1}if {c} then\n{pad1}  {self.shift(a)}\n{pad1}else\n{pad1}  {self.shift(b)}\n{pad}'
                        + self.block(rest, env2, tail, ind))
            if self.always_returns(st.body):
                a = self.block(st.body, env, None, ind + 1)
                b = self.block(list(st.orelse) + rest, env, tail, ind + 1)
            elif self.always_returns(st.orelse):
                a = self.block(list(st.body) + rest, env, tail, ind + 1)
                b = self.block(st.orelse, env, None, ind + 1)
            else:
                bad(st, '`if` with a `return` on some paths only in both branches')
            return f'if {c} then\n{pad1}{a}\n{pad}else\n{pad1}{b}'
        bad(st, 'unsupported statement')

    @staticmethod
    def shift(term):
        return term.replace('\n', '\n  ')

    def translate(self):
        fn = self.fn
        decos = [d.id if isinstance(d, ast.Name) else None for d in fn.decorator_list]
        if decos != ['staticmethod']:
            bad(fn, 'the function is not a plain @staticmethod')
        a = fn.args
        if a.posonlyargs or a.kwonlyargs or a.vararg or a.kwarg or a.defaults or a.kw_defaults:
            bad(fn, 'only plain positional parameters without defaults are supported')
        params = [ident(x.arg, fn) for x in a.args]
        if len(set(params)) != len(params) or not params:
            bad(fn, 'parameters')
        for n in ast.walk(fn):
            if isinstance(n, (ast.Global, ast.Nonlocal, ast.Lambda, ast.FunctionDef, ast.AsyncFunctionDef, ast.ClassDef)) \
                    and n is not fn:
                bad(n, 'nested scope / global declaration')
        env = {p: INT for p in params}
        body = self.block(strip_doc(fn.body), env, None, 1)
        sig = ' '.join(f'({p} : Int)' for p in params)
        return f'def {ident(fn.name, fn)} {sig} : {self.ret} :=\n  {body}'


# ---- part B: `_parse_value` as a PyProg term ---------------------------------------------------------------------
def lstr(x):
    if not (x.isascii() and x.isprintable()) or '"' in x or '\\' in x:
        raise Unsupported(f'string {x!r} cannot be emitted')
    return '"' + x + '"'


def llist(xs):
    return '[' + ', '.join(xs) + ']'


class ParseValue:
    def __init__(self, module, fn, arities):
        self.m = module
        self.fn = fn
        self.arities = arities          # validator name -> number of parameters
        self.regexes = []               # names in order of first use

    def name(self, e, want=None):
        if not (isinstance(e, ast.Name) and (want is None or e.id == want)):
            bad(e, f'expected the name {want!r}' if want else 'expected a plain name')
        return e.id

    def str_const(self, e):
        if not (isinstance(e, ast.Constant) and type(e.value) is str):
            bad(e, 'expected a string literal')
        return e.value

    def assign(self, st):
        """`x = e` / `x: T = e` -> (x, e)"""
        if isinstance(st, ast.Assign) and len(st.targets) == 1 and isinstance(st.targets[0], ast.Name):
            return st.targets[0].id, st.value
        if isinstance(st, ast.AnnAssign) and isinstance(st.target, ast.Name) and st.value is not None:
            return st.target.id, st.value
        bad(st, 'expected a simple assignment')

    def group_call(self, e, mvar):
        """`M.group('g')` -> g"""
        if not (isinstance(e, ast.Call) and isinstance(e.func, ast.Attribute) and e.func.attr == 'group'
                and not e.keywords and len(e.args) == 1):
            bad(e, 'expected M.group(<name>)')
        self.name(e.func.value, mvar)
        return self.str_const(e.args[0])

    def builtin(self, e, fname):
        if not (isinstance(e, ast.Call) and isinstance(e.func, ast.Name) and e.func.id == fname and not e.keywords):
            bad(e, f'expected a call of the builtin {fname}')
        if self.m.bindings(fname) != 0:
            bad(e, f'the builtin {fname!r} is rebound somewhere in the module')
        return e.args

    def translate(self):
        fn = self.fn
        decos = [d.id if isinstance(d, ast.Name) else None for d in fn.decorator_list]
        a = fn.args
        if decos != ['classmethod'] or a.posonlyargs or a.kwonlyargs or a.vararg or a.kwarg or a.defaults or len(a.args) != 3:
            bad(fn, f'{PARSE} is not a @classmethod of (cls, itype, value)')
        self.cls, self.itype, self.value = (x.arg for x in a.args)
        body = strip_doc(fn.body)
        if len(body) != 3 or not isinstance(body[1], ast.If) or not isinstance(body[2], ast.Return):
            bad(fn, 'expected `R = None`, one if/elif chain, `return R`')
        self.res, init = self.assign(body[0])
        if not (isinstance(init, ast.Constant) and init.value is None):
            bad(body[0], 'expected `R = None`')
        if body[2].value is None:
            bad(body[2], 'expected `return R`')
        self.name(body[2].value, self.res)
        if len({self.cls, self.itype, self.value, self.res}) != 4:
            bad(fn, 'parameter / result names clash')
        branches = []
        node = body[1]
        while True:
            branches.append(self.branch(node))
            if not node.orelse:
                break
            if len(node.orelse) != 1 or not isinstance(node.orelse[0], ast.If):
                bad(node, 'an `else` block is not supported')
            node = node.orelse[0]
        return branches

    def test(self, e):
        if not (isinstance(e, ast.Compare) and len(e.ops) == 1):
            bad(e, 'expected `itype == "..."` or `itype in (...)`')
        self.name(e.left, self.itype)
        r = e.comparators[0]
        if isinstance(e.ops[0], ast.Eq):
            return [self.str_const(r)]
        if isinstance(e.ops[0], ast.In) and isinstance(r, ast.Tuple) and r.elts:
            return [self.str_const(x) for x in r.elts]
        bad(e, 'expected `itype == "..."` or `itype in (...)`')

    def branch(self, node):
        itypes = self.test(node.test)
        if len(node.body) != 2 or not isinstance(node.body[1], ast.If):
            bad(node, 'expected `M = RE_X.match(value)` and `if M:`')
        mvar, call = self.assign(node.body[0])
        if not (isinstance(call, ast.Call) and isinstance(call.func, ast.Attribute) and call.func.attr == 'match'
                and not call.keywords and len(call.args) == 1 and isinstance(call.func.value, ast.Name)):
            bad(node.body[0], 'expected `M = RE_X.match(value)`')
        self.name(call.args[0], self.value)
        rx = call.func.value.id
        self.check_regex(rx, call)
        inner = node.body[1]
        self.name(inner.test, mvar)
        if inner.orelse or not inner.body:
            bad(inner, '`if M:` with an else block / empty')
        if mvar in (self.cls, self.itype, self.value, self.res):
            bad(node.body[0], 'match variable clashes with another name')
        reserved = {self.cls, self.itype, self.value, self.res, mvar}
        binds, bound = [], set()
        stmts = list(inner.body)
        while len(stmts) > 1:
            v, e = self.assign(stmts.pop(0))
            args = self.builtin(e, 'int')
            if len(args) != 2 or not (isinstance(args[1], ast.Constant) and type(args[1].value) is int and args[1].value == 10):
                bad(e, 'expected int(M.group(<name>), 10)')
            if v in reserved:
                bad(e, f'variable {v!r} clashes with another name')
            binds.append((v, self.group_call(args[0], mvar)))
            bound.add(v)
        last = stmts[0]
        conds = []
        if isinstance(last, ast.If):
            if last.orelse or len(last.body) != 1:
                bad(last, 'expected `if <validators>: R = (...)` without else')
            calls = last.test.values if isinstance(last.test, ast.BoolOp) and isinstance(last.test.op, ast.And) else [last.test]
            for c in calls:
                if not (isinstance(c, ast.Call) and isinstance(c.func, ast.Attribute) and not c.keywords):
                    bad(c, 'expected cls.validate_x(...)')
                self.name(c.func.value, self.cls)
                f = c.func.attr
                if f not in self.arities:
                    bad(c, f'{f!r} is not one of the translated validators')
                args = [self.name(x) for x in c.args]
                if len(args) != self.arities[f] or any(x not in bound for x in args):
                    bad(c, 'validator called with the wrong number of arguments or an unbound variable')
                conds.append((f, args))
            last = last.body[0]
        r, tup = self.assign(last)
        if r != self.res or not isinstance(tup, ast.Tuple) or not tup.elts:
            bad(last, 'expected `R = (...)`')
        if len(tup.elts) == 1 and isinstance(tup.elts[0], ast.Call):
            if binds or conds:
                bad(last, 'float(...) result after assignments / under a condition')
            args = self.builtin(tup.elts[0], 'float')
            if len(args) != 1:
                bad(last, 'expected float(M.group(<name>))')
            body = f'.float {lstr(self.group_call(args[0], mvar))}'
        else:
            result = [self.name(x) for x in tup.elts]
            if any(x not in bound for x in result):
                bad(last, 'result tuple uses an unbound variable')
            body = ('.ints ' + llist(f'({lstr(v)}, {lstr(g)})' for v, g in binds) + ' '
                    + llist(f'⟨{lstr(f)}, {llist(lstr(x) for x in args)}⟩' for f, args in conds) + ' '
                    + llist(lstr(x) for x in result))
        return f'{{ itypes := {llist(lstr(t) for t in itypes)}, regex := {lstr(rx)}, body := {body} }}'

    def check_regex(self, name, node):
        found = [st.value for st in self.m.tree.body
                 if isinstance(st, ast.Assign) and len(st.targets) == 1 and isinstance(st.targets[0], ast.Name)
                 and st.targets[0].id == name]
        ok = (len(found) == 1 and self.m.bindings(name) == 1 and isinstance(found[0], ast.Call)
              and isinstance(found[0].func, ast.Attribute) and found[0].func.attr == 'compile'
              and isinstance(found[0].func.value, ast.Name) and found[0].func.value.id == 're')
        if not ok:
            bad(node, f'{name!r} is not a module global bound exactly once to re.compile(...)')
        ident(name, node)
        if name not in self.regexes:
            self.regexes.append(name)


def find_class(tree, name):
    found = [n for n in tree.body if isinstance(n, ast.ClassDef) and n.name == name]
    if len(found) != 1:
        raise Unsupported(f'class {name} not found exactly once')
    return found[0]


def find_method(cls, name):
    found = [n for n in cls.body if isinstance(n, ast.FunctionDef) and n.name == name]
    if len(found) != 1:
        raise Unsupported(f'method {cls.name}.{name} not found exactly once')
    return found[0]


def generate(src_text):
    tree = ast.parse(src_text)
    module = Module(tree)
    cls = find_class(tree, CLASS)
    defs, arities = [], {}
    for f in FUNCTIONS:
        fn = find_method(cls, f)
        defs.append(Fn(module, fn).translate())
        arities[f] = len(fn.args.args)
    pv = ParseValue(module, find_method(cls, PARSE), arities)
    branches = pv.translate()
    lines = ['/- GENERATED by gen/gen_py_inputs.py from the source text of soupsieve/css_match.py (class Inputs). Do not edit. -/',
             'import SoupVerif.Model.PyExpr',
             'import SoupVerif.Model.PyProg',
             'import SoupVerif.Generated.Regexes',
             'namespace SoupVerif.Gen.PyInputs',
             'open SoupVerif',
             '',
             '/-! module constants (translated from their assignments) -/']
    for name, ty, term in module.used:
        lines.append(f'@[simp] def {name} : {ty} := {term}')
    lines.append('')
    lines.append('/-! the validators: `%` is `Int.fmod`, `//` is `Int.fdiv` (floor operations, as in Python) -/')
    for d in defs:
        lines.append(d)
        lines.append('')
    lines.append(f'/-! `Inputs.{PARSE}`: the if/elif chain, in source order -/')
    lines.append('def parseValueProg : PyProg.Prog := [')
    lines.append(',\n'.join('  ' + b for b in branches))
    lines.append(']')
    lines.append('')
    lines.append('/-- the regular expressions named by the program: the module globals as regenerated in Generated/Regexes.lean -/')
    lines.append('def regexes : List (String × (Rx × List (String × Nat))) := [')
    lines.append(',\n'.join(f'  ({lstr(r)}, (Gen.cm_{r}, Gen.cm_{r}_groups))' for r in pv.regexes))
    lines.append(']')
    lines.append('')
    lines.append('/-- the validators named by the program: the definitions translated above -/')
    lines.append('def validators : List (String × (List Int → Option Bool)) := [')
    rows = []
    for f in FUNCTIONS:
        xs = [f'x{i}' for i in range(arities[f])]
        rows.append(f'  ({lstr(f)}, fun | [{", ".join(xs)}] => some ({f} {" ".join(xs)}) | _ => none)')
    lines.append(',\n'.join(rows))
    lines.append(']')
    lines.append('')
    lines.append('def config (env : CharEnv) : PyProg.Config := ⟨env, regexes, validators⟩')
    lines.append('')
    lines.append('end SoupVerif.Gen.PyInputs')
    return '\n'.join(lines) + '\n', (len(defs), len(branches))


def main(dest):
    text, n = generate(open(SRC, encoding='utf-8').read())
    old = open(dest).read() if os.path.exists(dest) else None
    if old != text:
        open(dest, 'w').write(text)
    return f'{n[0]} functions, {n[1]} branches of {PARSE}'


if __name__ == '__main__':
    print(main(sys.argv[1]))
